#!/bin/bash
# runs every registered check (tier $1, default quick) sequentially; summary in /tmp/runall_<tier>.log
tier=${1:-quick}; shift
ids=${@:-C01 C02 C03 C04 C05 C06 C07 C08 C09 C10 C11 C12 C13 C14 C15 C16 C17 C18 C19 C20}
: > /tmp/runall_$tier.log
for id in $ids; do
  s=$(date +%s)
  timeout 7200 /verif/bin/vp check $id --tier $tier > /tmp/chk_${tier}_$id.log 2>&1; ec=$?
  echo "$id exit=$ec $(( $(date +%s) - s ))s $(grep -c '^KNOWN-FINDING' /tmp/chk_${tier}_$id.log) known" >> /tmp/runall_$tier.log
done
echo DONE >> /tmp/runall_$tier.log
