#!/usr/bin/env python3
"""Regenerates DESIGN.md section A.6 (seeded changes) from seeded/*/meta.json and the check logs
written by seedtest.sh / seedcheck.sh."""
import json, glob, re, os
rows = []
for d in sorted(glob.glob('/verif/seeded/C*-*/')):
    n = os.path.basename(d.rstrip('/'))
    m = json.load(open(d + 'meta.json'))
    pid = n.split('-')[0]
    log = d + f'check-{pid}-quick.log'
    by, ec = '', '?'
    if os.path.exists(log):
        for l in open(log):
            mm = re.match(r'violation: (\S+) (?:assert|panic) "([^"]*)"', l)
            if mm and not by:
                by = f"{mm.group(1)} `{mm.group(2)[:50]}`"
            if l.startswith('violation:') and 'does not terminate' in l and not by:
                by = l.split()[1] + ' (hang, native watchdog)'
            if l.startswith('GLOBAL-WRITE:') and not by:
                by = 'write barrier: ' + l.split('state:')[1].strip()[:60]
            mm = re.search(r'exit=(\d+) wall', l)
            if mm:
                ec = mm.group(1)
    vr = m.get('verif_result', {})
    first = vr.get('first_run', 'caught')
    summ = (m.get('summary') or '')[:140].replace('|', '/').replace('\n', ' ')
    rows.append((n, summ, first, by, ec))
    vr.update({'final': ('caught (quick tier, exit 1, natively confirmed)' if ec == '1' else f'exit {ec}'), 'detected_by': by})
    m['verif_result'] = vr
    json.dump(m, open(d + 'meta.json', 'w'), indent=1)
nm = sum(1 for r in rows if r[2].startswith('missed') or r[2].startswith('inconclusive') or r[2].startswith('not run'))
npre = sum(1 for r in rows if 'extended from the seed summary' in r[2])
ncaught = sum(1 for r in rows if r[4] == '1')
head = (f"{len(rows)} changes were written by independent sub-agents that saw only the property text and a scratch "
        "worktree (eight rounds: 20x2, 20x2, 15x2, 5x2, then four rounds of 10 properties x 2, each with all "
        "earlier summaries as an exclusion list and, from round 5 on, a request for longer and more structured inputs). Each was confirmed in a scratch worktree (builds, existing suite passes, demo "
        "fails with / passes without the change; `seedtest.sh`), then run through the quick check of its property on a "
        "scratch copy (VERIF_REPO; /repo untouched). First runs: "
        f"{len(rows)-nm-npre} caught as is, {npre} caught after I had extended a harness from the agent's summary (before "
        f"running the seed, without seeing the patch), {nm} missed or inconclusive; every miss led to a new or strengthened "
        f"harness (column 3). Final state (`./seedsweep.sh`, seeded/RESULTS.txt): {ncaught}/{len(rows)} reported as "
        "VIOLATION with native confirmation, none on the unchanged tree. Four patches (C09-2, C11-2, C15-3, C16-2) were re-expressed "
        "on top of later fix: commits that rewrote the same lines (original kept as patch.orig.diff).\n\n"
        "| seed | change | first run -> strengthening | detected by (final) |\n|------|--------|---------------------------|---------------------|\n")
table = head + "\n".join(f"| {n} | {s} | {f} | {b} |" for n, s, f, b, _ in rows)
s = open('/verif/DESIGN.md').read()
i = s.index('## A.6 Seeded changes'); j = s.index('## A.7 Limits')
s = s[:i] + '## A.6 Seeded changes (independent sub-agents, confirmed in scratch worktrees)\n\n' + table + '\n\n' + s[j:]
open('/verif/DESIGN.md', 'w').write(s)
print(len(rows), 'seeds;', ncaught, 'caught;', nm, 'missed first;', npre, 'pre-strengthened')
