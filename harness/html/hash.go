//go:build verif

package html

// VerifHashLemma justifies the ToHash summary used by the other harnesses:
// for every byte string s, ToHash(s) is 0 or a table entry whose text equals s
// (the FNV multiply is abstracted as an uninterpreted function, which is sound
// for this direction), and every table entry maps to itself (concrete runs).
func VerifHashLemma() {
	n := vRange("n", 0, _Hash_maxLen+1)
	s := vBytes("s", n)
	h := ToHash(s)
	if h != 0 {
		vReach("hit")
		isEntry := false
		for _, e := range _Hash_table {
			if e != 0 && e == h {
				isEntry = true
			}
		}
		vAssert(isEntry, "hash-not-a-table-entry")
		vAssert(string(h.Bytes()) == string(s), "hash-text-differs")
	} else {
		vReach("miss")
	}
}

// VerifHashEntries: every declared constant maps to itself and Bytes() never panics.
func VerifHashEntries() {
	for _, e := range _Hash_table {
		if e != 0 {
			vAssert(ToHash(e.Bytes()) == e, "entry-does-not-map-to-itself")
			vReach("entry")
		}
	}
	// every declared constant maps to itself and has its documented text
	decl := []Hash{Iframe, Math, Plaintext, Script, Style, Svg, Textarea, Title, Xml, Xmp}
	text := []string{"iframe", "math", "plaintext", "script", "style", "svg", "textarea", "title", "xml", "xmp"}
	for i, c := range decl {
		vAssert(string(c.Bytes()) == text[i], "constant-text")
		vAssert(ToHash([]byte(text[i])) == c, "constant-does-not-map-to-itself")
	}
	h := Hash(vUint32("h"))
	b := h.Bytes()
	vAssert(len(b) <= len(_Hash_text), "bytes-length")
}
