//go:build verif

package html

import (
	"github.com/tdewolff/parse/v2"
)

var vnRawTags = []string{"script", "style", "title", "textarea", "xmp", "iframe"}

func vnFoldEq(a []byte, s string) bool {
	if len(a) != len(s) {
		return false
	}
	for i := range a {
		if vnLower(a[i]) != s[i] {
			return false
		}
	}
	return true
}

func vnIsLetter(c byte) bool { return c >= 'a' && c <= 'z' || c >= 'A' && c <= 'Z' }

// refRawEnd returns the index in body at which the matching end tag "</name" (any ASCII case,
// followed by a non-letter) starts, or len(body); script bodies honour the "<!--" "<script"
// double-escape rule.
func refRawEnd(body []byte, name string) int {
	n := len(body)
	isEnd := func(i int, nm string) bool {
		if i+2+len(nm) > n || body[i] != '<' || body[i+1] != '/' {
			return false
		}
		if !vnFoldEq(body[i+2:i+2+len(nm)], nm) {
			return false
		}
		return i+2+len(nm) == n || !vnIsLetter(body[i+2+len(nm)])
	}
	for i := 0; i < n; i++ {
		if body[i] != '<' {
			continue
		}
		if isEnd(i, name) {
			return i
		}
		if name == "script" && i+3 < n && body[i+1] == '!' && body[i+2] == '-' && body[i+3] == '-' {
			// escaped: until "-->"; a "<script" inside opens a double escape closed by "</script"
			j := i + 4
			inScript := false
			closed := false
			for j < n {
				if body[j] == '-' && j+2 < n && body[j+1] == '-' && body[j+2] == '>' {
					j += 3
					closed = true
					break
				}
				if body[j] == '<' {
					if isEnd(j, "script") {
						if !inScript {
							return j
						}
						inScript = false
						j += 8
						continue
					}
					if j+7 <= n && vnFoldEq(body[j+1:j+7], "script") && (j+7 == n || !vnIsLetter(body[j+7])) {
						inScript = true
						j += 7
						continue
					}
				}
				j++
			}
			if !closed {
				return n
			}
			i = j - 1
		}
	}
	return n
}

// VerifRawText: <name> + body + </name>: the body comes back as exactly one text token with
// unaltered bytes, ending only at the matching end tag; never tokenised as markup.
func VerifRawText() {
	ti := vRange("tag", 0, len(vnRawTags)-1)
	name := vnRawTags[ti]
	pre := ""
	if name == "script" {
		// sketches of the script double-escape states
		pre = []string{"", "<!--", "<!--<script>", "<!--<script>a</script>", "<!--<script></script>-->"}[vRange("escaped", 0, 4)]
	}
	n := vRange("n", 0, vParam("N", 3))
	hole := vBytes("b", n)
	for i := range hole {
		c := hole[i]
		vAssume(c == '<' || c == '/' || c == '!' || c == '-' || c == '>' || c == 'a' || c == 'B' || c == ' ' || c == 's' || c == 'S')
	}
	body := append([]byte(pre), hole...)
	src := append([]byte("<"+name+">"), body...)
	src = append(src, ("</" + name + ">")...)
	orig := append([]byte(nil), src...)
	l := NewLexer(parse.NewInputBytes(append(make([]byte, 0, len(src)+1), src...)))
	tt, _ := l.Next()
	vAssert(tt == StartTagToken, "rawtext-starttag")
	tt, _ = l.Next()
	vAssert(tt == StartTagCloseToken, "rawtext-close")
	// reference: the text runs to the first matching end tag inside body+suffix
	rest := orig[len(name)+2:]
	end := refRawEnd(rest, name)
	tt, d := l.Next()
	if end == 0 {
		vAssert(tt == EndTagToken, "empty-rawtext")
		vReach("empty")
		return
	}
	vAssert(tt == TextToken, "rawtext-not-text")
	vAssert(len(d) == end, "rawtext-length")
	vAssert(string(d) == string(rest[:len(d)]), "rawtext-bytes-altered")
	if end < len(rest) {
		tt, _ = l.Next()
		vAssert(tt == EndTagToken, "rawtext-endtag")
	}
	vReach("rawtext")
}

// VerifForeign: <svg>/<math> + body + end tag in any ASCII case + following element: the
// subtree comes back as exactly one SVG/Math token ending at the matching end tag.
func VerifForeign() {
	name := []string{"svg", "math"}[vRange("tag", 0, 1)]
	n := vRange("n", 0, vParam("N", 2))
	body := vBytes("b", n)
	for i := range body {
		c := body[i]
		vAssume(c == '<' || c == '/' || c == '>' || c == 'a' || c == ' ' || c == '"' || c == 's')
	}
	// the end tag name in arbitrary ASCII case
	end := vBytes("e", len(name))
	for i := range end {
		vAssume(vnLower(end[i]) == name[i])
	}
	// reference: the body must not itself contain the end tag or an open quote
	quotes := 0
	for i := range body {
		if body[i] == '"' {
			quotes++
		}
	}
	vAssume(quotes%2 == 0)
	for i := 0; i+2 <= n; i++ {
		vAssume(!(body[i] == '<' && body[i+1] == '/'))
		// no child start tag here: a '<' + letter opens a tag whose quotes and '>' follow the tag rules
		// (children with attributes are derived properly in VerifForeignDoc)
		vAssume(!(body[i] == '<' && vnIsLetter(body[i+1])))
	}
	if n > 0 {
		vAssume(body[n-1] != '<')
	}
	src := append([]byte("<"+name+">"), body...)
	src = append(src, '<', '/')
	src = append(src, end...)
	src = append(src, '>')
	total := len(src)
	src = append(src, "<p>"...)
	l := NewLexer(parse.NewInputBytes(append(make([]byte, 0, len(src)+1), src...)))
	tt, d := l.Next()
	if name == "svg" {
		vAssert(tt == SVGToken, "foreign-type")
	} else {
		vAssert(tt == MathToken, "foreign-type")
	}
	vAssert(len(d) == total, "foreign-content-length")
	tt, _ = l.Next()
	vAssert(tt == StartTagToken && string(l.Text()) == "p", "element-after-foreign-content-lost")
	vReach("foreign")
}

// VerifTemplate: text + "{{" + body + "}}" + <p>: the delimited region (quoted strings with
// backslash escapes may contain the end delimiter) is inside exactly one token and the
// following element is still seen.
func VerifTemplate() {
	n := vRange("n", 0, vParam("N", 3))
	body := vBytes("b", n)
	for i := range body {
		c := body[i]
		vAssume(c == '"' || c == '\'' || c == '\\' || c == '}' || c == 'a' || c == ' ')
	}
	src := append(append([]byte("x{{"), body...), "}}<p>"...)
	// reference: end of the region = first "}}" outside a quoted string; inside a string a
	// backslash escapes the next character
	i := 3
	end := -1
	for i < len(src) {
		c := src[i]
		if c == '}' && i+1 < len(src) && src[i+1] == '}' {
			end = i + 2
			break
		}
		if c == '"' || c == '\'' {
			j := i + 1
			closed := false
			for j < len(src) {
				if src[j] == '\\' {
					j += 2
					continue
				}
				if src[j] == c {
					closed = true
					j++
					break
				}
				j++
			}
			if !closed {
				return // unterminated string: region runs to the end of input, no claim
			}
			i = j
			continue
		}
		i++
	}
	if end < 0 || end > len(src)-3 {
		return
	}
	vAssume(end == len(src)-3) // the region ends exactly at our closing delimiter
	l := NewTemplateLexer(parse.NewInputBytes(append(make([]byte, 0, len(src)+1), src...)), GoTemplate)
	tt, d := l.Next()
	vAssert(tt == TextToken && string(d) == "x", "text-before-template")
	tt, d = l.Next()
	vAssert(tt == TemplateToken && len(d) == end-1 && l.HasTemplate(), "template-region-split")
	tt, _ = l.Next()
	vAssert(tt == StartTagToken && string(l.Text()) == "p", "element-after-template-lost")
	vReach("template")
}
