//go:build verif

package html

import (
	"io"

	"github.com/tdewolff/parse/v2"
)

func vnWS(c byte) bool { return c == ' ' || c == '\t' || c == '\n' || c == '\r' || c == '\f' }

const (
	vnC01 = 1
	vnC02 = 2
	vnC09 = 4
)

func vnNewLexer(z *parse.Input, tmpl int) *Lexer {
	switch tmpl {
	case 1:
		return NewTemplateLexer(z, GoTemplate)
	case 2:
		return NewTemplateLexer(z, EJSTemplate)
	case 3:
		return NewTemplateLexer(z, PHPTemplate)
	}
	return NewLexer(z)
}

func vnLower(c byte) byte {
	if c >= 'A' && c <= 'Z' {
		return c + ('a' - 'A')
	}
	return c
}

func vnContains(s, sub []byte) bool {
	for i := 0; i+len(sub) <= len(s); i++ {
		if string(s[i:i+len(sub)]) == string(sub) {
			return true
		}
	}
	return false
}

// vnW drives the HTML lexer over every byte string of length 0..N.
func vnW(mode int) {
	n := vRange("n", 0, vParam("N", 2))
	b := vBytes("b", n)
	tmpl := vRange("tmpl", 0, vParam("T", 0))
	orig := append([]byte(nil), b...)
	z := parse.NewInputBytes(append(make([]byte, 0, n+1), b...))
	whole := z.Bytes()
	l := vnNewLexer(z, tmpl)
	prevEnd := 0
	inTag := false
	ended := false
	policy := 0
	if mode&vnC01 != 0 {
		policy = vRange("policy", 0, 1)
	}
	prevErr := false
	prevErrOff := -1
	for i := 0; i < 2*n+6; i++ {
		wasInTag := inTag
		tt, data := l.Next()
		vObserve("tok", int(tt), data, l.Text(), l.AttrVal(), l.HasTemplate())
		if tt == ErrorToken {
			vAssert(l.Err() != nil, "error-without-err")
			vAssert(len(data) == 0, "error-with-data")
			final := l.Err() == io.EOF || (prevErr && prevErrOff == z.Offset())
			if l.Err() == io.EOF {
				vReach("eof")
				if mode&vnC02 != 0 {
					vAssert(z.Offset() == n, "eof-before-end")
				}
			} else {
				vReach("error")
			}
			if policy == 0 || final {
				ended = true
				if policy == 1 {
					e1 := l.Err()
					tt2, d2 := l.Next()
					vAssert(tt2 == ErrorToken && len(d2) == 0, "not-sticky")
					vAssert((l.Err() == io.EOF) == (e1 == io.EOF), "err-not-sticky")
				}
				break
			}
			prevErr, prevErrOff = true, z.Offset()
			continue
		}
		prevErr = false
		off := vOffsetIn(data, whole)
		if mode&vnC01 != 0 {
			vAssert(off >= 0 && off+len(data) <= n, "token-outside-input")
			vAssert(z.Offset() <= n, "offset-past-end")
		}
		if mode&vnC02 != 0 {
			vAssert(len(data) > 0, "empty-token")
			vAssert(off >= prevEnd, "token-overlap")
			vAssert(off+len(data) == z.Offset(), "token-not-ending-at-offset")
			vAssert(cap(data) == len(data), "token-cap")
			for j := prevEnd; j < off; j++ {
				vAssert(wasInTag && vnWS(orig[j]), "skipped-non-whitespace")
			}
			if t := l.Text(); len(t) > 0 {
				to := vOffsetIn(t, whole)
				vAssert(to >= off && to+len(t) <= off+len(data), "text-outside-token")
			}
			if tt == AttributeToken {
				if v := l.AttrVal(); len(v) > 0 {
					vo := vOffsetIn(v, whole)
					vAssert(vo >= off && vo+len(v) <= off+len(data), "attrval-outside-token")
					vAssert(string(v) == string(orig[vo:vo+len(v)]), "attrval-altered")
				}
			}
			// only the ASCII case of tag and attribute names may change
			for j := 0; j < len(data); j++ {
				o := orig[off+j]
				if data[j] != o {
					vAssert(data[j] == vnLower(o), "input-altered")
					okSpan := false
					switch tt {
					case EndTagToken:
						okSpan = true
					case StartTagToken, AttributeToken: // tag name / attribute key
						if t := l.Text(); len(t) > 0 {
							to := vOffsetIn(t, whole)
							okSpan = off+j >= to && off+j < to+len(t)
						}
					case SVGToken, XMLToken: // "<svg", "<xml": the tag name itself
						okSpan = j >= 1 && j < 4
					case MathToken:
						okSpan = j >= 1 && j < 5
					}
					vAssert(okSpan, "case-changed-outside-name")
				}
			}
			prevEnd = off + len(data)
		}
		if mode&vnC09 != 0 {
			switch tt {
			case AttributeToken:
				vAssert(wasInTag, "attribute-outside-tag")
				vReach("attr")
			case StartTagCloseToken, StartTagVoidToken:
				vAssert(wasInTag, "tag-close-outside-tag")
			default:
				vAssert(!wasInTag, "content-token-inside-tag")
			}
			if tmpl != 0 {
				has := vnContains(data, l.tmplBegin)
				if l.HasTemplate() {
					vAssert(has, "hastemplate-without-delimiter")
				} else {
					// the label names the token kind so that a finding for one kind cannot hide another
					switch tt {
					case CommentToken:
						vAssert(!has, "template-not-flagged-in-comment")
					case DoctypeToken:
						vAssert(!has, "template-not-flagged-in-doctype")
					case EndTagToken:
						vAssert(!has, "template-not-flagged-in-endtag")
					case SVGToken, MathToken, XMLToken:
						vAssert(!has, "template-not-flagged-in-foreign-content")
					case StartTagCloseToken, StartTagVoidToken:
						vAssert(!has, "template-not-flagged-in-tag-close")
					default:
						vAssert(!has, "template-not-flagged")
					}
				}
			} else {
				vAssert(!l.HasTemplate(), "hastemplate-without-templates")
			}
			if tt == StartTagToken || tt == EndTagToken {
				t := l.Text()
				for j := range t {
					vAssert(t[j] < 'A' || t[j] > 'Z', "tag-name-not-lowercase")
				}
			}
		}
		switch tt {
		case StartTagToken:
			inTag = true
		case StartTagCloseToken, StartTagVoidToken:
			inTag = false
		}
	}
	vAssert(ended, "no-termination")
	if mode&vnC02 != 0 {
		for j := prevEnd; j < n; j++ {
			vAssert(whole[j] == orig[j], "tail-altered")
		}
	}
}

func VerifW01() { vnW(vnC01) }
func VerifW02() { vnW(vnC02) }
func VerifW09() { vnW(vnC09) }
