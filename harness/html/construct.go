//go:build verif

package html

import (
	"github.com/tdewolff/parse/v2"
)

// Constructive harnesses for C09: the document is *assembled* from well-formed constructs with
// symbolic holes (letter case, whitespace, quoting style, short bodies); the expected token
// sequence is known by construction and compared with the lexer's output token by token.

type vnTok struct {
	tt   TokenType
	text []byte // expected Text() (nil: not compared)
	val  []byte // expected AttrVal() for attributes
	data int    // expected len(data), -1: not compared
}

// vnLight selects the reduced variant of every construct (first-letter case, minimal whitespace),
// used for the leading constructs of a sequence so that sequences of 2..3 stay tractable.
var vnLight bool

func vnCased(tag, s string) (src, lower []byte) {
	b := vBytes(tag, len(s))
	for i := range b {
		c, lc := b[i], s[i]
		if vnLight && i > 0 {
			vAssume(c == lc)
			continue
		}
		vAssume(c == lc || (lc >= 'a' && lc <= 'z' && c == lc-32))
	}
	return b, []byte(s)
}

// vnCasedEnds: like vnCased but only the first and the last letter have symbolic case.
func vnCasedEnds(tag, s string) (src, lower []byte) {
	b := vBytes(tag, len(s))
	for i := range b {
		if i == 0 || (i == len(s)-1 && !vnLight) {
			c, lc := b[i], s[i]
			vAssume(c == lc || c == lc-32)
		} else {
			vAssume(b[i] == s[i])
		}
	}
	return b, []byte(s)
}

func vnWSp(tag string, min, max int) []byte {
	if vnLight {
		max = min
	}
	k := vRange(tag+"n", min, max)
	w := vBytes(tag, k)
	for i := range w {
		c := w[i]
		vAssume(c == ' ' || c == '\t' || c == '\n' || c == '\r' || c == '\f')
	}
	return w
}

// vnPick chooses one of n alternatives; the light variant of a construct uses a fixed one.
func vnPick(tag string, n, light int) int {
	if vnLight {
		return light
	}
	return vRange(tag, 0, n-1)
}

func vnCat(parts ...[]byte) []byte {
	var out []byte
	for _, p := range parts {
		out = append(out, p...)
	}
	return out
}

// vnConstruct appends construct number `kind` to src and its expected tokens to exp.
// prevText reports whether the previous construct ended in a text token (two adjacent text
// constructs would merge into one token, which the expectation does not model).
func vnConstruct(id string, kind int, src []byte, exp []vnTok, bodyMax int) ([]byte, []vnTok, bool) {
	switch kind {
	case 0: // character data without '<'
		n := vRange(id+"tn", 1, bodyMax)
		t := vBytes(id+"t", n)
		for i := range t {
			c := t[i]
			vAssume(c == 'a' || c == ' ' || c == '&' || c == '>' || c == '/' || c == '-' || c == '!' || c == '"' || c == '\'' || c == '=')
		}
		return append(src, t...), append(exp, vnTok{TextToken, t, nil, n}), true
	case 1: // comment
		n := vRange(id+"cn", 0, bodyMax)
		b := vBytes(id+"c", n)
		for i := range b {
			c := b[i]
			vAssume(c == '-' || c == '>' || c == 'a' || c == '!' || c == '<' || c == ' ')
		}
		// well-formed comment text (HTML 13.1.6): does not start with ">" or "->", contains no
		// "<!--", "-->", "--!>", does not end with "<!-"
		if n > 0 {
			vAssume(b[0] != '>')
			vAssume(b[n-1] != '-') // "x-" + "-->" would contain "--" + "->": keep the end unambiguous
		}
		if n > 1 {
			vAssume(!(b[0] == '-' && b[1] == '>'))
		}
		for i := 0; i+1 < n; i++ {
			vAssume(!(b[i] == '-' && b[i+1] == '-'))
		}
		piece := vnCat([]byte("<!--"), b, []byte("-->"))
		return append(src, piece...), append(exp, vnTok{CommentToken, b, nil, len(piece)}), false
	case 2: // doctype in any case
		kw, _ := vnCased(id+"d", "doctype")
		piece := vnCat([]byte("<!"), kw, []byte(" html>"))
		return append(src, piece...), append(exp, vnTok{DoctypeToken, nil, nil, len(piece)}), false
	case 3: // CDATA section
		n := vRange(id+"kn", 0, bodyMax)
		b := vBytes(id+"k", n)
		for i := range b {
			c := b[i]
			vAssume(c == ']' || c == '>' || c == '<' || c == 'a' || c == '[')
		}
		// well-formed section with this content: the first "]]>" of content+"]]>" is the terminator
		// (the content may end in ']' and contain "]]" not followed by '>')
		all := vnCat(b, []byte("]]>"))
		for i := 0; i < n; i++ {
			vAssume(!(all[i] == ']' && all[i+1] == ']' && all[i+2] == '>'))
		}
		piece := vnCat([]byte("<![CDATA["), b, []byte("]]>"))
		return append(src, piece...), append(exp, vnTok{TextToken, b, nil, len(piece)}), true
	case 4, 5: // start tag with 0..1 attribute (4) or exactly two attributes (5), closed by > or />
		var name, lname []byte
		if kind == 5 {
			name, lname = []byte("a"), []byte("a") // name variation is exercised by kind 4
		} else {
			name, lname = vnCased(id+"s", []string{"a", "br", "p"}[vnPick(id+"sw", 3, 1)])
		}
		src = append(append(src, '<'), name...)
		exp = append(exp, vnTok{StartTagToken, lname, nil, 1 + len(name)})
		nattr := vParam("NA", -1)
		if nattr < 0 {
			if vnLight {
				nattr = 1
			} else {
				nattr = vRange(id+"na", 0, 1)
			}
		}
		if kind == 5 {
			nattr = 2
		}
		lastUnquoted := false
		for a := 0; a < nattr; a++ {
			aid := id + string(rune('x'+a))
			w0 := vnWSp(aid+"w", 1, 1)
			var key, lkey []byte
			if kind == 5 && a == 0 {
				key, lkey = []byte("k"), []byte("k")
			} else {
				key, lkey = vnCased(aid+"k", []string{"k", "id"}[vnPick(aid+"kw", 2, 0)])
			}
			form := vParam("FORM", -1)
			if form < 0 {
				form = vRange(aid+"f", 0, 3)
			}
			var val []byte
			piece := vnCat(w0, key)
			lastUnquoted = false
			if form != 0 {
				wmax := 1
				if kind == 5 && a == 0 {
					wmax = 0 // whitespace around '=' is exercised on the second attribute
				}
				w1, w2 := vnWSp(aid+"u", 0, wmax), vnWSp(aid+"v", 0, wmax)
				vmax := bodyMax
				if kind == 5 {
					vmax = 1
					if form == 1 {
						vmax = 1
					}
				}
				m := vmax
				if !vnLight {
					m = vRange(aid+"vn", 0, vmax)
				}
				v := vBytes(aid+"vb", m)
				switch form {
				case 1: // unquoted: non-empty, no whitespace, quotes, '=', '<', '>', '`'
					vAssume(m > 0)
					for i := range v {
						c := v[i]
						vAssume(c == 'a' || c == '/' || c == '-' || c == '&' || c == '1')
					}
					val = v
					lastUnquoted = true
				case 2:
					for i := range v {
						c := v[i]
						vAssume(c == 'a' || c == '\'' || c == '>' || c == '<' || c == ' ' || c == '/' || c == '=')
					}
					val = vnCat([]byte{'"'}, v, []byte{'"'})
				case 3:
					for i := range v {
						c := v[i]
						vAssume(c == 'a' || c == '"' || c == '>' || c == '<' || c == ' ' || c == '/' || c == '=')
					}
					val = vnCat([]byte{'\''}, v, []byte{'\''})
				}
				piece = vnCat(piece, w1, []byte{'='}, w2, val)
			}
			src = append(src, piece...)
			exp = append(exp, vnTok{AttributeToken, lkey, val, len(piece)})
		}
		void := vBool(id + "void")
		wmin := 0
		if void && lastUnquoted {
			wmin = 1 // "<a k=v/>": the '/' belongs to the unquoted value
		}
		w := vnWSp(id+"cw", wmin, 1)
		src = append(src, w...)
		if void {
			src = append(src, '/', '>')
			exp = append(exp, vnTok{StartTagVoidToken, nil, nil, 2})
		} else {
			src = append(src, '>')
			exp = append(exp, vnTok{StartTagCloseToken, nil, nil, 1})
		}
		return src, exp, false
	case 6: // end tag with optional whitespace before '>'
		name, lname := vnCased(id+"e", []string{"a", "br", "p"}[vnPick(id+"ew", 3, 2)])
		w := vnWSp(id+"ew2", 0, 2)
		piece := vnCat([]byte("</"), name, w, []byte(">"))
		return append(src, piece...), append(exp, vnTok{EndTagToken, lname, nil, len(piece)}), false
	case 7: // raw text element with a body that contains markup-looking text
		name, lname := vnCasedEnds(id+"r", []string{"style", "title", "textarea", "xmp", "iframe", "script"}[vRange(id+"rw", 0, 5)])
		ename, _ := vnCasedEnds(id+"re", string(lname))
		body := []string{"", "a<b", "<!--x-->", "</a>", "<p k=\"v\">", "&lt;"}[vnPick(id+"rb", 6, 3)]
		src = append(append(src, '<'), name...)
		exp = append(exp, vnTok{StartTagToken, lname, nil, 1 + len(name)})
		src = append(src, '>')
		exp = append(exp, vnTok{StartTagCloseToken, nil, nil, 1})
		if body != "" {
			src = append(src, body...)
			exp = append(exp, vnTok{TextToken, []byte(body), nil, len(body)})
		}
		w := vnWSp(id+"rw2", 0, 1)
		piece := vnCat([]byte("</"), ename, w, []byte(">"))
		return append(src, piece...), append(exp, vnTok{EndTagToken, lname, nil, len(piece)}), false
	case 8: // foreign subtree
		which := vRange(id+"fw", 0, 1)
		nm := []string{"svg", "math"}[which]
		name, lname := vnCased(id+"f", nm)
		ename, _ := vnCased(id+"fe", nm)
		inner := []string{"", "a", "<g/>", "<g x=\"</" + nm + ">\"></g>", "<!--c-->", "<!-- it's \"q -->", "<![CDATA[ ' ]]>", "<?pi \" ?>", "a < b"}[vnPick(id+"fb", 9, 3)]
		piece := vnCat([]byte("<"), name, []byte(">"), []byte(inner), []byte("</"), ename, []byte(">"))
		tt := SVGToken
		if which == 1 {
			tt = MathToken
		}
		return append(src, piece...), append(exp, vnTok{tt, lname, nil, len(piece)}), false
	}
	return src, exp, false
}

func vnCheckDoc(src []byte, exp []vnTok) {
	orig := append([]byte(nil), src...)
	l := NewLexer(parse.NewInputBytes(append(make([]byte, 0, len(src)+1), src...)))
	for i := range exp {
		tt, data := l.Next()
		e := exp[i]
		vAssert(tt == e.tt, "doc-token-type")
		if e.data >= 0 && tt != AttributeToken {
			vAssert(len(data) == e.data, "doc-token-length")
		}
		if e.text != nil {
			vAssert(string(l.Text()) == string(e.text), "doc-token-text")
		}
		if tt == AttributeToken {
			vAssert(string(l.AttrKey()) == string(e.text), "doc-attr-key")
			vAssert(string(l.AttrVal()) == string(e.val), "doc-attr-val")
		}
	}
	tt, _ := l.Next()
	vAssert(tt == ErrorToken, "doc-extra-token")
	_ = orig
}

// VerifDoc: K constructs in sequence, each chosen by the solver.
func VerifDoc() {
	vnLight = false
	k := vParam("K", 2)
	bodyMax := vParam("B", 2)
	var src []byte
	var exp []vnTok
	prevText := false
	premask := vParam("PREMASK", 0x1ff) // kinds allowed for the light constructs
	full := vParam("FULL", k-1) // index of the construct explored with all its holes (-1: none)
	for i := 0; i < k; i++ {
		vnLight = i != full
		if vnLight {
			bodyMax = 1
		} else {
			bodyMax = vParam("B", 2)
		}
		kind := vParam("KIND"+string(rune('0'+i)), -1)
		if kind < 0 {
			kind = vRange("kind"+string(rune('0'+i)), 0, 8)
		}
		if prevText {
			vAssume(kind != 0 && kind != 3)
		}
		if vnLight {
			vAssume(kind != 5) // two-attribute tags only as the full construct
			vAssume(premask>>uint(kind)&1 == 1)
		}
		src, exp, prevText = vnConstruct(string(rune('A'+i)), kind, src, exp, bodyMax)
	}
	vnCheckDoc(src, exp)
	vReach("doc")
}

// VerifForeignDoc: a well-formed svg/math subtree whose character data and attribute values
// contain quotes, '>' and the element's own end tag; it must come back as one token and the
// element after it must not be swallowed.
func VerifForeignDoc() {
	vnLight = false // harness globals persist between native replays in one process
	which := vRange("tag", 0, 1)
	nm := []string{"svg", "math"}[which]
	ename, _ := vnCased("e", nm)
	tn := vRange("tn", 0, vParam("N", 2))
	text := vBytes("t", tn)
	for i := range text {
		c := text[i]
		vAssume(c == 'a' || c == '"' || c == '\'' || c == '>' || c == ' ')
	}
	var attr []byte
	switch vRange("attr", 0, 2) {
	case 1, 2:
		q := byte('"')
		other := byte('\'')
		if vBool("sq") {
			q, other = other, q
		}
		m := vRange("vn", 0, vParam("N", 2))
		v := vBytes("v", m)
		for i := range v {
			c := v[i]
			vAssume(c == 'a' || c == other || c == '>' || c == '/' || c == ' ')
		}
		attr = vnCat([]byte(" x="), []byte{q}, v, []byte{q})
	}
	var child []byte
	switch vRange("child", 0, 6) {
	case 4: // markup declarations are not tags: quotes inside them are plain characters
		child = []byte("<!-- it's -->")
	case 5:
		child = []byte("<![CDATA[ \" ]]>")
	case 6:
		child = []byte("<?pi ' ?>")
	case 1:
		child = []byte("<g/>")
	case 2:
		child = vnCat([]byte("<g y=\"</"), []byte(nm), []byte(">\"></g>"))
	case 3:
		child = vnCat([]byte("<g y='</"), []byte(nm), []byte(">'></g>"))
	}
	order := vBool("textfirst")
	var inner []byte
	if order {
		inner = vnCat(text, child)
	} else {
		inner = vnCat(child, text)
	}
	piece := vnCat([]byte("<"), []byte(nm), attr, []byte(">"), inner, []byte("</"), ename, []byte(">"))
	src := vnCat(piece, []byte("<p>"))
	l := NewLexer(parse.NewInputBytes(append(make([]byte, 0, len(src)+1), src...)))
	tt, d := l.Next()
	if which == 0 {
		vAssert(tt == SVGToken, "foreign-doc-type")
	} else {
		vAssert(tt == MathToken, "foreign-doc-type")
	}
	vAssert(len(d) == len(piece), "foreign-subtree-not-one-token")
	tt, _ = l.Next()
	vAssert(tt == StartTagToken && string(l.Text()) == "p", "element-after-foreign-subtree-lost")
	vReach("foreigndoc")
}

// VerifTemplateAttr: with template delimiters configured, an attribute whose NAME contains no
// template is lower-cased like any other, whatever its value contains; a name that contains a
// template is left alone; HasTemplate() is true exactly when the token contains a delimiter.
func VerifTemplateAttr() {
	vnLight = false
	name, lname := vnCased("k", []string{"type", "id"}[vRange("kw", 0, 1)])
	q := []string{"\"", "'", ""}[vRange("q", 0, 2)]
	val := []string{"v", "{{.K}}", "a{{.K}}b", "{{.A}}{{.B}}"}[vRange("val", 0, 3)]
	tmplName := vBool("tmplname")
	var key []byte
	if tmplName {
		key = vnCat(name, []byte("{{.N}}"))
	} else {
		key = name
	}
	src := vnCat([]byte("<INPUT "), key, []byte("="+q+val+q+">x"))
	l := NewTemplateLexer(parse.NewInputBytes(append(make([]byte, 0, len(src)+1), src...)), GoTemplate)
	tt, _ := l.Next()
	vAssert(tt == StartTagToken && string(l.Text()) == "input", "tmpl-attr-starttag")
	tt, _ = l.Next()
	vAssert(tt == AttributeToken, "tmpl-attr-token")
	if tmplName {
		vAssert(string(l.AttrKey()) == string(key), "templated-attribute-name-altered")
	} else {
		vAssert(string(l.AttrKey()) == string(lname), "attribute-name-not-lower-cased")
	}
	vAssert(string(l.AttrVal()) == q+val+q, "tmpl-attr-value")
	vAssert(l.HasTemplate() == (tmplName || val != "v"), "tmpl-attr-hastemplate")
	tt, _ = l.Next()
	vAssert(tt == StartTagCloseToken, "tmpl-attr-close")
	tt, _ = l.Next()
	vAssert(tt == TextToken, "tmpl-attr-text")
	vReach("tmplattr")
}
