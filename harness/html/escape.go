//go:build verif

package html

import (
	"github.com/tdewolff/parse/v2"
)

// vnDecode decodes decimal character references (&#DD; / &#DD) and &amp; as an HTML
// tokenizer does inside an attribute value; enough for values over the harness alphabet.
func vnDecode(b []byte) []byte {
	var out []byte
	for i := 0; i < len(b); {
		if b[i] == '&' && i+2 < len(b) && b[i+1] == '#' && b[i+2] >= '0' && b[i+2] <= '9' {
			j := i + 2
			x := 0
			for j < len(b) && b[j] >= '0' && b[j] <= '9' {
				x = x*10 + int(b[j]-'0')
				if x > 1000 {
					x = 1000
				}
				j++
			}
			if j < len(b) && b[j] == ';' {
				j++
			}
			if x > 0 && x < 128 {
				out = append(out, byte(x))
			} else {
				out = append(out, 0xEF, 0xBF, 0xBD)
			}
			i = j
			continue
		}
		out = append(out, b[i])
		i++
	}
	return out
}

// VerifEscapeAttr: the value returned by EscapeAttrVal is read back by the HTML lexer as
// one attribute value which, once unquoted, decodes to the same text as the original.
func VerifEscapeAttr() {
	n := vRange("n", 0, vParam("N", 3))
	b := vBytes("b", n)
	for i := range b {
		c := b[i]
		vAssume(c == '\'' || c == '"' || c == '&' || c == '#' || c == '3' || c == '4' || c == '9' || c == ';' || c == 'a' || c == ' ' || c == '=' || c == '>' || c == '/' || c == '\n' || c == '`' || c == '<' || c == '\f' || c == '\v' || c == '\t' || c == '\r')
	}
	orig := append([]byte(nil), b...)
	var origQuote byte
	switch vRange("quote", 0, 2) {
	case 1:
		origQuote = '\''
	case 2:
		origQuote = '"'
	}
	mustQuote := vRange("must", 0, 1) == 1
	var buf []byte
	out := EscapeAttrVal(&buf, b, origQuote, mustQuote)
	vObserve("out", out)
	vAssert(string(b) == string(orig), "argument-modified")
	doc := append(append([]byte("<a x="), out...), '>')
	l := NewLexer(parse.NewInputBytes(append(make([]byte, 0, len(doc)+1), doc...)))
	tt, _ := l.Next()
	vAssert(tt == StartTagToken, "readback-starttag")
	tt, _ = l.Next()
	vAssert(tt == AttributeToken, "readback-attribute")
	val := l.AttrVal()
	vAssert(string(val) == string(out), "readback-value-differs")
	tt, _ = l.Next()
	vAssert(tt == StartTagCloseToken, "readback-close")
	// unquote and decode
	inner := out
	quoted := len(out) >= 2 && (out[0] == '"' || out[0] == '\'') && out[len(out)-1] == out[0]
	if quoted {
		inner = out[1 : len(out)-1]
		for _, c := range inner {
			vAssert(c != out[0], "unescaped-quote-inside")
		}
		vReach("quoted")
	} else {
		vAssert(string(out) == string(orig), "unquoted-but-changed")
		vReach("unquoted")
	}
	vAssert(string(vnDecode(inner)) == string(vnDecode(orig)), "decoded-text-differs")
	// keeps the original quote when that quote does not occur in the value
	if quoted && origQuote != 0 {
		has := false
		for _, c := range orig {
			if c == origQuote {
				has = true
			}
		}
		if !has {
			vAssert(out[0] == origQuote, "original-quote-not-kept")
		}
	}
	if mustQuote && origQuote != 0 {
		vAssert(quoted, "must-quote-ignored")
	}
}
