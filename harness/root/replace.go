//go:build verif

package parse

// VerifReplaceWS: ReplaceMultipleWhitespace replaces every maximal whitespace run by
// one space, or one newline if the run contained \n or \r, and changes nothing else.
func VerifReplaceWS() {
	n := vRange("n", 0, vParam("N", 3))
	b := vBytes("b", n)
	orig := append([]byte(nil), b...)
	var want []byte
	for i := 0; i < n; {
		if refWS(orig[i]) {
			nl := false
			j := i
			for j < n && refWS(orig[j]) {
				if orig[j] == '\n' || orig[j] == '\r' {
					nl = true
				}
				j++
			}
			if nl {
				want = append(want, '\n')
			} else {
				want = append(want, ' ')
			}
			i = j
		} else {
			want = append(want, orig[i])
			i++
		}
	}
	in := append(make([]byte, 0, n+1), b...)
	out := ReplaceMultipleWhitespace(in)
	vObserve("out", out)
	vAssert(string(out) == string(want), "replace-whitespace")
	if len(out) > 0 {
		vAssert(vOffsetIn(out, in) >= 0, "replace-whitespace-not-in-place")
	}
	vReach("ws")
}

var vnEntities = map[string][]byte{
	"amp":  []byte("&"),
	"lt":   []byte("<"),
	"gt":   []byte(">"),
	"quot": []byte("\""),
	"apos": []byte("'"),
	"nbsp": []byte(" "),
}

var vnRevEntities = map[byte][]byte{
	'<': []byte("&lt;"),
	'&': []byte("&amp;"),
}

// a second, smaller reverse map (no entry for '&'): both are consistent with HTML
var vnRevEntities2 = map[byte][]byte{
	'<': []byte("&lt;"),
}

func vnEntityAlphabet(b []byte) {
	for i := range b {
		c := b[i]
		vAssume(c == '&' || c == '#' || c == 'x' || c == ';' || c == '0' || c == '1' || c == '3' || c == '4' || c == '6' || c == 'a' || c == 'm' || c == 'p' || c == 'l' || c == 't' || c == 'g' || c == ' ' || c == 'A')
	}
}

// refHTMLDecode decodes character references as an HTML tokenizer does in text
// (validated natively against html.UnescapeString on the bounded domain).
var vnNulRef bool

func refHTMLDecode(b []byte) []byte {
	var out []byte
	for i := 0; i < len(b); {
		if b[i] != '&' {
			out = append(out, b[i])
			i++
			continue
		}
		// numeric
		if i+1 < len(b) && b[i+1] == '#' {
			j := i + 2
			hex := false
			if j < len(b) && (b[j] == 'x' || b[j] == 'X') {
				hex = true
				j++
			}
			start := j
			x := 0
			for j < len(b) {
				c := b[j]
				d := -1
				if c >= '0' && c <= '9' {
					d = int(c - '0')
				} else if hex && c >= 'a' && c <= 'f' {
					d = int(c-'a') + 10
				} else if hex && c >= 'A' && c <= 'F' {
					d = int(c-'A') + 10
				}
				if d < 0 {
					break
				}
				if hex {
					x = x<<4 + d
				} else {
					x = x*10 + d
				}
				if x > 0x110000 {
					x = 0x110000
				}
				j++
			}
			if j == start {
				out = append(out, '&')
				i++
				continue
			}
			if j < len(b) && b[j] == ';' {
				j++
			}
			if x == 0 {
				vnNulRef = true
			}
			out = append(out, refRuneBytes(x)...)
			i = j
			continue
		}
		// named: longest match among the map's names (all require ';' except the legacy amp lt gt quot nbsp)
		matched := false
		for _, name := range []string{"quot", "nbsp", "apos", "amp", "lt", "gt"} {
			l := len(name)
			if i+1+l <= len(b) && string(b[i+1:i+1+l]) == name {
				semi := i+1+l < len(b) && b[i+1+l] == ';'
				if semi || name != "apos" {
					out = append(out, vnEntities[name]...)
					i += 1 + l
					if semi {
						i++
					}
					matched = true
					break
				}
			}
		}
		if !matched {
			out = append(out, '&')
			i++
		}
	}
	return out
}

var refC1 = [32]rune{0x20AC, 0x81, 0x201A, 0x192, 0x201E, 0x2026, 0x2020, 0x2021, 0x2C6, 0x2030, 0x160, 0x2039, 0x152, 0x8D, 0x17D, 0x8F,
	0x90, 0x2018, 0x2019, 0x201C, 0x201D, 0x2022, 0x2013, 0x2014, 0x2DC, 0x2122, 0x161, 0x203A, 0x153, 0x9D, 0x17E, 0x178}

func refRuneBytes(x int) []byte {
	if x == 0 || x > 0x10FFFF || x >= 0xD800 && x <= 0xDFFF {
		return []byte("�")
	}
	if x >= 0x80 && x <= 0x9F {
		// numeric references to C1 controls are remapped through windows-1252 (WHATWG table)
		return []byte(string(refC1[x-0x80]))
	}
	return []byte(string(rune(x)))
}

// VerifEntities: ReplaceEntities never lengthens, is idempotent and leaves the decoded text unchanged.
func VerifEntities() {
	n := vRange("n", 0, vParam("N", 4))
	b := vBytes("b", n)
	vnEntityAlphabet(b)
	sk := vParam("SK", 0)
	switch vRange("sk", sk, sk) { // sketches: concrete prefix + symbolic rest
	case 1:
		b = append([]byte("&#x"), b...)
	case 2:
		b = append([]byte("&#"), b...)
	case 3:
		b = append([]byte("&amp;"), b...)
	case 4: // an unterminated hex reference directly followed by a complete one
		b = append(append([]byte("&#x&#x"), b...), ';')
	case 5:
		b = append(append([]byte("&#&#"), b...), ';')
	case 6:
		b = append(append([]byte("&#x&#"), b...), ';')
	case 7:
		b = append(append([]byte("&#&#x"), b...), ';')
	case 8: // a numeric reference to '&' followed by text that could complete a reference
		b = append([]byte("&#38;"), b...)
	case 9:
		b = append([]byte("&#x26;"), b...)
	case 10: // an undecoded decimal reference (value >= 128, no ';') followed by more text
		b = append([]byte("a&#200"), b...)
	case 11: // decimal digits that overflow a machine word
		b = append(append([]byte("&#1844674407370955168"), b...), ';')
	case 12:
		b = append(append([]byte("&#922337203685477580"), b...), ';')
	case 13: // every two-digit hexadecimal reference (ASCII / C1 / Latin-1 boundaries), then the tail
		h := vBytes("h", 2)
		for i := range h {
			c := h[i]
			vAssume(c >= '0' && c <= '9' || c >= 'a' && c <= 'f' || c >= 'A' && c <= 'F')
		}
		b = append(append(append([]byte("&#x"), h...), ';'), b...)
	case 14: // every three-digit decimal reference
		d := vBytes("d", 3)
		for i := range d {
			c := d[i]
			vAssume(c >= '0' && c <= '9')
		}
		b = append(append(append([]byte("&#"), d...), ';'), b...)
	}
	n = len(b)
	orig := append([]byte(nil), b...)
	rev := vnRevEntities
	if vRange("rev", 0, 1) == 1 {
		rev = vnRevEntities2
	}
	out := ReplaceEntities(append(make([]byte, 0, n+1), b...), vnEntities, rev)
	vObserve("out", out)
	vAssert(len(out) <= n, "replace-entities-longer")
	out1 := append([]byte(nil), out...)
	out2 := ReplaceEntities(append([]byte(nil), out...), vnEntities, rev)
	vAssert(string(out2) == string(out1), "replace-entities-not-idempotent")
	vnNulRef = false
	d1 := refHTMLDecode(orig)
	nul := vnNulRef
	d2 := refHTMLDecode(out1)
	if !nul {
		vAssert(string(d1) == string(d2), "replace-entities-changes-decoded-text")
	}
	vReach("entities")
}

// VerifWSAndEntities: the combined function equals applying the two in sequence.
func VerifWSAndEntities() {
	n := vRange("n", 0, vParam("N", 4))
	b := vBytes("b", n)
	for i := range b {
		c := b[i]
		vAssume(c == '&' || c == '#' || c == ';' || c == '3' || c == '2' || c == 'l' || c == 't' || c == ' ' || c == '\n' || c == 'a' || c == '\r' || c == '\t' || c == '\f')
	}
	if vParam("SK", 0) == 10 {
		b = append([]byte("a&#200"), b...)
	}
	got := ReplaceMultipleWhitespaceAndEntities(append([]byte(nil), b...), vnEntities, vnRevEntities)
	want := ReplaceEntities(ReplaceMultipleWhitespace(append([]byte(nil), b...)), vnEntities, vnRevEntities)
	vObserve("out", got)
	vAssert(string(got) == string(want), "combined-differs-from-sequence")
	vReach("combined")
}
