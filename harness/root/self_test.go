//go:build verif

package parse

import (
	"html"
	"net/url"
	"testing"
)

func vnEnum(alpha []byte, depth int, f func([]byte)) {
	var rec func(prefix []byte, d int)
	rec = func(prefix []byte, d int) {
		f(prefix)
		if d == 0 {
			return
		}
		for _, c := range alpha {
			rec(append(append([]byte(nil), prefix...), c), d-1)
		}
	}
	rec(nil, depth)
}

// the URL reference agrees with net/url.QueryUnescape wherever that succeeds
func TestVerifSelfRefQueryUnescape(t *testing.T) {
	n := 0
	vnEnum([]byte("%+09afAFgz "), 5, func(b []byte) {
		want, err := url.QueryUnescape(string(b))
		got, ok := refQueryUnescape(b)
		if (err == nil) != ok || ok && string(got) != want {
			t.Fatalf("refQueryUnescape(%q)=%q,%v; net/url: %q,%v", b, got, ok, want, err)
		}
		n++
	})
	t.Logf("%d strings compared", n)
}

// the HTML reference decoder agrees with html.UnescapeString on the harness alphabet
func TestVerifSelfRefHTMLDecode(t *testing.T) {
	n := 0
	atoms := []string{"&", "#", "x", ";", "0", "1", "3", "4", "A", "amp", "lt", "gt", "quot", " "}
	var rec func(prefix []byte, d int, f func([]byte))
	rec = func(prefix []byte, d int, f func([]byte)) {
		f(prefix)
		if d == 0 {
			return
		}
		for _, a := range atoms {
			rec(append(append([]byte(nil), prefix...), a...), d-1, f)
		}
	}
	rec(nil, 5, func(b []byte) {
		// a sentinel avoids html.UnescapeString's end-of-string quirk ("&#1" as the last three bytes
		// is left undecoded by Go although HTML decodes it)
		b = append(append([]byte(nil), b...), '!')
		// Go leaves a one-character numeric reference without ';' ("&#1!", "&#xA!") undecoded
		// (its "no characters matched" test counts one character too many); HTML decodes it.
		for i := 0; i+2 < len(b); i++ {
			if b[i] == '&' && b[i+1] == '#' {
				j := i + 2
				if b[j] == 'x' || b[j] == 'X' {
					j++
				}
				k := j
				for k < len(b) && (b[k] >= '0' && b[k] <= '9' || (j > i+2) && (b[k] >= 'a' && b[k] <= 'f' || b[k] >= 'A' && b[k] <= 'F')) {
					k++
				}
				if k-i <= 3 && k > j && b[k] != ';' {
					return
				}
				if k == j && k < len(b) && b[k] == ';' {
					return // "&#;" / "&#x;": Go decodes U+FFFD, HTML keeps the text (no digits)
				}
			}
		}
		vnNulRef = false
		got := string(refHTMLDecode(b))
		if vnNulRef {
			return // references to NUL are excepted by the property
		}
		want := html.UnescapeString(string(b))
		if got != want {
			t.Fatalf("refHTMLDecode(%q)=%q, html.UnescapeString=%q", b, got, want)
		}
		n++
	})
	t.Logf("%d strings compared", n)
}
