//go:build verif

package parse

import (
	"bytes"
	"unicode"
	"unicode/utf8"
)

// vnPosAlphabet restricts text bytes to the ones that matter for line structure:
// ASCII letter, LF, CR, a 2-byte character (C3 A9) and the 3-byte separators U+2028/U+2029.
func vnPosAlphabet(b []byte) {
	for i := range b {
		c := b[i]
		vAssume(c == 'a' || c == '\n' || c == '\r' || c == 0xC3 || c == 0xA9 || c == 0xE2 || c == 0x80 || c == 0xA8 || c == 0x01 || c == 0x00 || c == 0x8B || c == 0xC2 || c == 0xAD)
	}
	vAssume(utf8.Valid(b))
}

// refBreakLen returns the length of the line break starting at i (0 if none).
func refBreakLen(b []byte, i int) int {
	switch {
	case b[i] == '\n':
		return 1
	case b[i] == '\r':
		if i+1 < len(b) && b[i+1] == '\n' {
			return 2
		}
		return 1
	case b[i] == 0xE2 && i+2 < len(b) && b[i+1] == 0x80 && (b[i+2] == 0xA8 || b[i+2] == 0xA9):
		return 3
	}
	return 0
}

// refPosition: line = 1 + breaks ending at or before off; col = 1 + code points of
// that line that end at or before off.
func refPosition(b []byte, off int) (line, col, lineStart int) {
	line, col = 1, 1
	for i := 0; i < len(b); {
		if bl := refBreakLen(b, i); bl > 0 {
			if i+bl > off {
				break
			}
			line++
			col = 1
			i += bl
			lineStart = i
			continue
		}
		_, w := utf8.DecodeRune(b[i:])
		if i+w > off {
			break
		}
		col++
		i += w
	}
	return
}

// VerifPosition: line and column equal the reference for every valid UTF-8 text and every offset in [-1, len+1].
func VerifPosition() {
	n := vRange("n", 0, vParam("N", 3))
	b := vBytes("b", n)
	vnPosAlphabet(b)
	off := vRange("off", -1, n+1)
	line, col, ctx := Position(bytes.NewBuffer(append([]byte(nil), b...)), off)
	wl, wc, _ := refPosition(b, off)
	vObserve("pos", line, col, ctx)
	vAssert(line == wl, "line")
	vAssert(col == wc, "column")
	// context: second line is 6+col spaces and a caret
	nl := -1
	for i := 0; i < len(ctx); i++ {
		if ctx[i] == '\n' {
			nl = i
		}
	}
	vAssert(nl >= 7, "context-first-line")
	second := ctx[nl+1:]
	vAssert(len(second) == 6+col+1 && second[len(second)-1] == '^', "caret-line")
	for i := 0; i+1 < len(second); i++ {
		vAssert(second[i] == ' ', "caret-line-padding")
	}
	// first line: "%5d: " and the text of that line (up to the next line break or the end of the
	// text), characters that are not graphic shown as a middle dot; lines here are short, so no elision
	if off >= 0 && off <= n {
		_, _, ls := refPosition(b, off)
		var want []byte
		for i := ls; i < n; {
			if refBreakLen(b, i) > 0 {
				break
			}
			r, w := utf8.DecodeRune(b[i:])
			if !unicode.In(r, unicode.L, unicode.M, unicode.N, unicode.P, unicode.S, unicode.Zs) {
				// graphic characters by definition: categories L, M, N, P, S, Zs; everything else
				// (controls, format characters, separators, unassigned) is shown as a middle dot
				want = append(want, 0xC2, 0xB7)
			} else {
				want = append(want, b[i:i+w]...)
			}
			i += w
		}
		first := ctx[7:nl]
		vAssert(first == string(want), "context-line-text")
		num := ctx[:7]
		vAssert(num[5] == ':' && num[6] == ' ' && num[4] == byte('0'+wl%10), "context-line-number")
	}
	vReach("position")
}

// VerifPositionLong: long lines (around the 60-character elision limit): no panic, the
// caret stays under the character at the offset, the shown line stays bounded.
func VerifPositionLong() {
	L := vRange("L", vParam("LMIN", 56), vParam("LMAX", 66))
	line := make([]byte, L)
	for i := range line {
		line[i] = 'a'
	}
	// three symbolic ASCII bytes at symbolic places make the character under the caret identifiable
	off := vRange("off", 0, L)
	marker := vByte("m")
	vAssume(marker >= 'b' && marker <= 'z')
	if off < L {
		line[off] = marker
	}
	text := append(append([]byte("x\n"), line...), '\n', 'y')
	gotLine, col, ctx := Position(bytes.NewBuffer(text), 2+off)
	vAssert(gotLine == 2 && col == off+1, "long-line-col")
	nl := -1
	for i := 0; i < len(ctx); i++ {
		if ctx[i] == '\n' {
			nl = i
		}
	}
	vAssert(nl >= 7, "context-first-line")
	first := ctx[7:nl]
	second := ctx[nl+1:]
	caret := len(second) - 1 - 7 // index into first
	vAssert(len(first) <= 60+6, "context-too-long")
	if L <= 60 {
		// a line within the limit is shown in full
		vAssert(len(first) == L, "line-within-the-limit-elided")
	}
	vAssert(second[len(second)-1] == '^' && caret >= 0 && caret <= len(first), "caret-position")
	if off < L {
		vAssert(caret < len(first) && first[caret] == marker, "caret-not-under-offset-character")
	} else {
		vAssert(caret == len(first), "caret-not-at-line-end")
	}
	vReach("long")
}
