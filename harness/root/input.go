//go:build verif

package parse

import (
	"bytes"
	"errors"
	"io"
	"unicode/utf8"
)

// vnInput builds an Input over n symbolic bytes in an arbitrary valid cursor
// state (0 <= start <= pos <= n), through one of the byte constructors.
func vnInput() (z *Input, data []byte, n, start, pos int) {
	n = vRange("n", 0, vParam("N", 3))
	b := vBytes("b", n)
	data = append([]byte(nil), b...)
	switch vRange("ctor", 0, 2) {
	case 0: // spare capacity: terminator borrowed in place
		z = NewInputBytes(append(make([]byte, 0, n+1), b...))
	case 1: // no spare capacity: reallocation
		z = NewInputBytes(b)
	default:
		z = NewInputString(string(b))
	}
	start = vRange("start", 0, n)
	pos = vRange("pos", start, n)
	z.start, z.pos = start, pos
	return
}

func refAt(data []byte, i int) byte {
	if i < len(data) {
		return data[i]
	}
	return 0
}

// VerifInputStep: one cursor operation from an arbitrary valid state equals the reference cursor.
func VerifInputStep() {
	z, data, n, start, pos := vnInput()
	whole := z.Bytes()
	vAssert(len(whole) == n && string(whole) == string(data), "bytes-content")
	vAssert(z.Len() == n, "len")
	vAssert(z.Pos() == pos-start && z.Offset() == pos, "pos-offset")
	switch vRange("op", 0, 9) {
	case 0: // Peek
		i := vRange("i", 0, n-pos)
		vAssert(z.Peek(i) == refAt(data, pos+i), "peek")
		vReach("peek")
	case 1: // Err / PeekErr
		i := vRange("i", 0, n-pos+1)
		e := z.PeekErr(i)
		if pos+i >= n {
			vAssert(e == io.EOF, "peekerr-eof-missing")
		} else {
			vAssert(e == nil, "peekerr-early-eof")
		}
		if pos >= n {
			vAssert(z.Err() == io.EOF, "err-eof-missing")
		} else {
			vAssert(z.Err() == nil, "err-early-eof")
		}
		vReach("err")
	case 2: // Move / Rewind
		k := vRange("k", start-pos, n-pos)
		z.Move(k)
		vAssert(z.Offset() == pos+k && z.Pos() == pos+k-start, "move")
		m := vRange("m", 0, n-start)
		z.Rewind(m)
		vAssert(z.Offset() == start+m && z.Pos() == m, "rewind")
		vReach("move")
	case 3: // Lexeme
		l := z.Lexeme()
		vAssert(len(l) == pos-start && cap(l) == len(l), "lexeme-len-cap")
		vAssert(string(l) == string(data[start:pos]), "lexeme-content")
		if len(l) > 0 {
			vAssert(vOffsetIn(l, whole) == start, "lexeme-identity")
		}
		vAssert(z.Pos() == pos-start && z.Offset() == pos, "lexeme-moves")
		vReach("lexeme")
	case 4: // Shift
		l := z.Shift()
		vAssert(len(l) == pos-start && cap(l) == len(l), "shift-len-cap")
		vAssert(string(l) == string(data[start:pos]), "shift-content")
		if len(l) > 0 {
			vAssert(vOffsetIn(l, whole) == start, "shift-identity")
		}
		vAssert(z.Pos() == 0 && z.Offset() == pos, "shift-state")
		vAssert(len(z.Lexeme()) == 0, "shift-lexeme-empty")
		vReach("shift")
	case 5: // Skip
		z.Skip()
		vAssert(z.Pos() == 0 && z.Offset() == pos && len(z.Lexeme()) == 0, "skip")
		vReach("skip")
	case 6: // Reset
		z.Reset()
		vAssert(z.Pos() == 0 && z.Offset() == 0, "reset")
		vAssert(z.Peek(0) == refAt(data, 0), "reset-peek")
		vReach("reset")
	case 7: // PeekRune at any position: width stays inside the data, no read past the terminator
		i := vRange("i", 0, n-pos)
		r, w := z.PeekRune(i)
		rest := n - (pos + i)
		vAssert(w >= 1 && w <= 4, "peekrune-width-range")
		if rest > 0 {
			vAssert(w <= rest, "peekrune-width-past-end")
		} else {
			vAssert(r == 0 && w == 1, "peekrune-at-end")
		}
		vReach("peekrune")
	case 8: // PeekRune agrees with unicode/utf8 on valid UTF-8
		vAssume(utf8.Valid(data))
		i := vRange("i", 0, n-pos)
		vAssume(pos+i < n && utf8.RuneStart(data[pos+i]))
		r, w := z.PeekRune(i)
		rr, rw := utf8.DecodeRune(data[pos+i:])
		vAssert(r == rr && w == rw, "peekrune-utf8")
		vReach("peekrune-utf8")
	case 9: // MoveRune consistent with PeekRune(0)
		_, w := z.PeekRune(0)
		z.MoveRune()
		vAssert(z.Offset() == pos+w, "moverune")
		if pos < n {
			vAssert(z.Offset() <= n, "moverune-past-end")
		}
		vReach("moverune")
	}
	vAssert(string(z.Bytes()) == string(data), "data-modified")
}

// reader stubs
type vnChunkReader struct {
	data   []byte
	off    int
	failAt int // fail (with vnErr) once off >= failAt; -1 = never
	calls  int
	min    int // minimum chunk size while data remain (0 allows zero-length reads)
	eofWith bool // deliver io.EOF together with the last bytes (allowed by io.Reader)
}

var vnErr = errors.New("vn reader failure")

func (r *vnChunkReader) Read(p []byte) (int, error) {
	r.calls++
	if r.failAt >= 0 && r.off >= r.failAt {
		return 0, vnErr
	}
	if r.off >= len(r.data) {
		return 0, io.EOF
	}
	max := len(r.data) - r.off
	if len(p) < max {
		max = len(p)
	}
	if r.failAt >= 0 && r.failAt-r.off < max {
		max = r.failAt - r.off
	}
	k := max
	if r.calls <= 3 {
		lo := r.min
		if lo > max {
			lo = max
		}
		k = vRange("chunk", lo, max)
	}
	copy(p, r.data[r.off:r.off+k])
	r.off += k
	if r.eofWith && k > 0 && r.off == len(r.data) && r.failAt < 0 {
		return k, io.EOF
	}
	return k, nil
}

// VerifInputCtor: constructors deliver exactly the reader's bytes; the caller's
// slice is untouched except the borrowed terminator byte, which Restore puts back.
func VerifInputCtor() {
	n := vRange("n", 0, vParam("N", 3))
	b := vBytes("b", n)
	data := append([]byte(nil), b...)
	switch vRange("ctor", 0, 4) {
	case 0: // bytes with spare capacity
		extra := vByte("extra")
		arr := append(append(make([]byte, 0, n+1), b...), extra)
		z := NewInputBytes(arr[:n])
		vAssert(string(z.Bytes()) == string(data), "ctor-bytes")
		vAssert(string(arr[:n]) == string(data), "ctor-modified-caller")
		vAssert(z.Peek(n) == 0, "ctor-terminator")
		z.Restore()
		vAssert(arr[n] == extra, "restore")
		vAssert(string(arr[:n]) == string(data), "restore-modified-caller")
		vReach("spare")
	case 1: // bytes without spare capacity
		arr := append([]byte(nil), b...)
		arr = arr[:n:n]
		z := NewInputBytes(arr)
		vAssert(string(z.Bytes()) == string(data) && z.Peek(n) == 0, "ctor-bytes")
		vAssert(string(arr) == string(data), "ctor-modified-caller")
		z.Restore()
		vAssert(string(arr) == string(data), "restore-modified-caller")
		vReach("nospare")
	case 2: // reader with Bytes()
		z := NewInput(bytes.NewBuffer(append([]byte(nil), b...)))
		vAssert(string(z.Bytes()) == string(data) && z.Peek(n) == 0, "ctor-buffer")
		if n == 0 {
			vAssert(z.Err() == io.EOF, "ctor-buffer-empty-eof")
		} else {
			vAssert(z.Err() == nil, "ctor-buffer-err")
		}
		vReach("buffer")
	case 3: // plain reader, arbitrary chunking, possibly failing after k bytes
		failAt := vRange("failAt", -1, n)
		z := NewInput(&vnChunkReader{data: data, failAt: failAt, eofWith: vBool("eofWith")})
		if failAt >= 0 {
			vAssert(z.Err() == vnErr, "ctor-reader-error-lost")
			vAssert(z.Peek(0) == 0 && z.Len() == 0, "ctor-reader-error-data")
			vReach("reader-fail")
		} else {
			vAssert(string(z.Bytes()) == string(data) && z.Peek(n) == 0, "ctor-reader")
			if n > 0 {
				vAssert(z.Err() == nil, "ctor-reader-err")
			}
			vReach("reader")
		}
	case 4: // nil reader
		z := NewInput(nil)
		vAssert(z.Len() == 0 && z.Peek(0) == 0 && z.Err() == io.EOF, "ctor-nil")
		vReach("nil")
	}
}
