//go:build verif

package parse

import (
	"encoding/binary"
	"errors"
	"io"
)

type vnSeeker struct {
	data []byte
	pos  int64
}

func (s *vnSeeker) Read(p []byte) (int, error) {
	if s.pos >= int64(len(s.data)) {
		return 0, io.EOF
	}
	n := copy(p, s.data[s.pos:])
	s.pos += int64(n)
	return n, nil
}

func (s *vnSeeker) Seek(off int64, whence int) (int64, error) {
	var abs int64
	switch whence {
	case 0:
		abs = off
	case 1:
		abs = s.pos + off
	case 2:
		abs = int64(len(s.data)) + off
	default:
		return 0, errors.New("bad whence")
	}
	if abs < 0 {
		return 0, errors.New("negative position")
	}
	s.pos = abs
	return abs, nil
}

type vnReaderAt struct{ data []byte }

func (r *vnReaderAt) ReadAt(p []byte, off int64) (int, error) {
	if off < 0 {
		return 0, errors.New("negative offset")
	}
	if off >= int64(len(r.data)) {
		return 0, io.EOF
	}
	n := copy(p, r.data[off:])
	if n < len(p) {
		return n, io.EOF
	}
	return n, nil
}

func (r *vnReaderAt) Read(p []byte) (int, error) { return 0, errors.New("not sequential") }

const vnBackends = 5

func vnBinaryReader(data []byte, backend int) *BinaryReader {
	n := int64(len(data))
	switch backend {
	case 0:
		return NewBinaryReaderBytes(data)
	case 1:
		r, _ := NewBinaryReaderReader(&vnChunkReader{data: data, failAt: -1, min: 1}, n)
		return r
	case 2:
		r, _ := NewBinaryReaderReader(&vnSeeker{data: data}, n)
		return r
	case 3:
		if n == 0 {
			return NewBinaryReader(newBinaryReaderReaderAt(&vnReaderAt{data}, n))
		}
		r, _ := NewBinaryReaderReader(&vnReaderAt{data}, n)
		return r
	default:
		return NewBinaryReader(&binaryReaderMmap{data: data, size: n})
	}
}

func vnRefUint(b []byte, le bool) uint64 {
	v := uint64(0)
	for i := range b {
		if le {
			v |= uint64(b[i]) << (8 * uint(i))
		} else {
			v = v<<8 | uint64(b[i])
		}
	}
	return v
}

// VerifBinaryRead: a sequence of typed reads on every backend returns the reference
// values, Pos tracks the bytes consumed, Err() stays nil until a read runs past the end.
func VerifBinaryRead() {
	n := vRange("n", 0, vParam("N", 3))
	data := vBytes("d", n)
	orig := append([]byte(nil), data...)
	backend := vRange("backend", 0, vnBackends-1)
	le := vRange("le", 0, 1) == 1
	r := vnBinaryReader(data, backend)
	if le {
		r.ByteOrder = binary.LittleEndian
	}
	pos := 0
	failed := false
	var keptBytes [][]byte
	var keptWant [][]byte
	vAssert(r.Len() == int64(n) && r.Pos() == 0 && r.Err() == nil, "initial-state")
	for k := 0; k < vParam("K", 2); k++ {
		kind := vRange("kind", 0, 5)
		size := 0
		var got uint64
		var gotBytes []byte
		switch kind {
		case 0:
			size, got = 1, uint64(r.ReadUint8())
		case 1:
			size, got = 2, uint64(r.ReadUint16())
		case 2:
			size, got = 3, uint64(r.ReadUint24())
		case 3:
			size, got = 4, uint64(r.ReadUint32())
		case 4:
			size, got = 8, r.ReadUint64()
		case 5:
			size = vRange("len", 0, n+1)
			gotBytes = r.ReadBytes(int64(size))
		}
		if !failed && pos+size <= n {
			// fully inside the data
			if kind == 5 {
				vAssert(string(gotBytes) == string(orig[pos:pos+size]), "readbytes-value")
				keptBytes = append(keptBytes, gotBytes)
				keptWant = append(keptWant, orig[pos:pos+size])
			} else {
				vAssert(got == vnRefUint(orig[pos:pos+size], le), "typed-read-value")
			}
			pos += size
			vAssert(r.Pos() == int64(pos), "pos-after-read")
			vAssert(r.Len() == int64(n-pos), "len-after-read")
			vAssert(r.Err() == nil, "err-before-running-past-end")
			vReach("read-ok")
		} else {
			if kind != 5 {
				vAssert(got == 0, "short-read-nonzero")
			}
			if size > 0 {
				failed = true
				vAssert(r.Err() == io.EOF, "err-after-running-past-end")
			}
			vAssert(r.Pos() <= int64(n), "pos-past-end")
			vReach("read-short")
		}
		// byte strings handed out earlier keep their value
		for i := range keptBytes {
			vAssert(string(keptBytes[i]) == string(keptWant[i]), "earlier-byte-string-overwritten")
		}
	}
}

// VerifBinarySeek: Seek agrees with bytes.Reader for every whence and every target inside [0, Len].
func VerifBinarySeek() {
	n := vRange("n", 0, vParam("N", 3))
	data := vBytes("d", n)
	r := vnBinaryReader(data, vRange("backend", 0, vnBackends-1))
	p0 := vRange("pos", 0, n)
	r.pos = int64(p0)
	off := vInt64("off")
	whence := vRange("whence", 0, 3)
	got, err := r.Seek(off, whence)
	var target int64
	wrapped := false
	switch whence {
	case 0:
		target = off
	case 1:
		target = int64(p0) + off
		wrapped = off > 0 && target < int64(p0)
	case 2:
		target = int64(n) + off
		wrapped = off > 0 && target < int64(n)
	default:
		vAssert(err != nil, "invalid-whence-accepted")
		vAssert(r.Pos() == int64(p0), "failed-seek-moved")
		vReach("bad-whence")
		return
	}
	if !wrapped && target >= 0 && target <= int64(n) {
		vAssert(err == nil, "valid-seek-rejected")
		vAssert(got == target && r.Pos() == target, "seek-position")
		vReach("seek-ok")
	} else if !wrapped && target < 0 {
		vAssert(err != nil, "negative-seek-accepted")
		vAssert(r.Pos() == int64(p0), "failed-seek-moved")
		vReach("seek-negative")
	}
}

// VerifBinaryIO: Read and ReadAt comply with io.Reader / io.ReaderAt.
func VerifBinaryIO() {
	n := vRange("n", 0, vParam("N", 3))
	data := vBytes("d", n)
	orig := append([]byte(nil), data...)
	backend := vRange("backend", 0, vnBackends-1)
	r := vnBinaryReader(data, backend)
	m := vRange("m", 0, n+1)
	if vRange("op", 0, 1) == 0 {
		p0 := 0
		if backend != 1 {
			p0 = vRange("pos", 0, n)
			r.pos = int64(p0)
		}
		buf := make([]byte, m)
		k, err := r.Read(buf)
		vAssert(k >= 0 && k <= m, "read-count")
		vAssert(k <= n-p0, "read-past-end")
		vAssert(string(buf[:k]) == string(orig[p0:p0+k]), "read-data")
		vAssert(r.Pos() == int64(p0+k), "read-pos")
		if m > 0 && k == 0 {
			vAssert(err != nil, "read-zero-without-error")
		}
		if m > 0 && p0 < n {
			vAssert(k > 0, "read-nothing-with-data-left")
		}
		if k < m && p0+k < n {
			vAssert(err != nil, "short-read-without-error-before-end")
		}
		vReach("read")
	} else {
		if backend == 1 {
			return // sequential reader cannot ReadAt
		}
		off := vRange("off", 0, n)
		buf := make([]byte, m)
		k, err := r.ReadAt(buf, int64(off))
		avail := n - off
		want := m
		if avail < want {
			want = avail
		}
		vAssert(k == want, "readat-count")
		vAssert(string(buf[:k]) == string(orig[off:off+k]), "readat-data")
		if k < m {
			vAssert(err != nil, "readat-short-without-error")
		}
		vAssert(r.Pos() == 0, "readat-moved-pos")
		vReach("readat")
	}
}

// VerifBinaryRoundTrip: typed writes are read back value for value in both byte orders.
func VerifBinaryRoundTrip() {
	le := vRange("le", 0, 1) == 1
	w := NewBinaryWriter(nil)
	if le {
		w.ByteOrder = binary.LittleEndian
	}
	K := vParam("K", 2)
	kinds := make([]int, K)
	vals := make([]uint64, K)
	total := 0
	for k := 0; k < K; k++ {
		kinds[k] = vRange("kind", 0, 9)
		v := vUint64("v")
		switch kinds[k] {
		case 0:
			w.WriteUint8(uint8(v))
			vals[k], total = uint64(uint8(v)), total+1
		case 1:
			w.WriteUint16(uint16(v))
			vals[k], total = uint64(uint16(v)), total+2
		case 2:
			w.WriteUint24(uint32(v))
			vals[k], total = uint64(uint32(v)&0xFFFFFF), total+3
		case 3:
			w.WriteUint32(uint32(v))
			vals[k], total = uint64(uint32(v)), total+4
		case 4:
			w.WriteUint64(v)
			vals[k], total = v, total+8
		case 5:
			w.WriteInt8(int8(v))
			vals[k], total = uint64(int64(int8(v))), total+1
		case 6:
			w.WriteInt16(int16(v))
			vals[k], total = uint64(int64(int16(v))), total+2
		case 7:
			w.WriteInt32(int32(v))
			vals[k], total = uint64(int64(int32(v))), total+4
		case 8:
			w.WriteInt64(int64(v))
			vals[k], total = v, total+8
		case 9:
			w.WriteBytes([]byte{byte(v), byte(v >> 8)})
			vals[k], total = v&0xFFFF, total+2
		}
	}
	vAssert(w.Len() == int64(total), "writer-len")
	r := vnBinaryReader(append([]byte(nil), w.Bytes()...), vRange("backend", 0, vnBackends-1))
	if le {
		r.ByteOrder = binary.LittleEndian
	}
	for k := 0; k < K; k++ {
		var got uint64
		switch kinds[k] {
		case 0:
			got = uint64(r.ReadUint8())
		case 1:
			got = uint64(r.ReadUint16())
		case 2:
			got = uint64(r.ReadUint24())
		case 3:
			got = uint64(r.ReadUint32())
		case 4:
			got = r.ReadUint64()
		case 5:
			got = uint64(int64(r.ReadInt8()))
		case 6:
			got = uint64(int64(r.ReadInt16()))
		case 7:
			got = uint64(int64(r.ReadInt32()))
		case 8:
			got = uint64(r.ReadInt64())
		case 9:
			b := r.ReadBytes(2)
			vAssert(len(b) == 2, "roundtrip-bytes-len")
			got = uint64(b[0]) | uint64(b[1])<<8
		}
		vAssert(got == vals[k], "roundtrip-value")
		vAssert(r.Err() == nil, "roundtrip-err")
	}
	vAssert(r.Len() == 0 && r.Pos() == int64(total), "roundtrip-consumed")
	vReach("roundtrip")
}

// VerifBitmap: bits written are read back in order; the reader yields all 8*len(buf) bits before EOF.
func VerifBitmap() {
	if vRange("mode", 0, 1) == 0 {
		n := vRange("n", 0, vParam("N", 2))
		buf := vBytes("d", n)
		r := NewBitmapReader(buf)
		for i := 0; i < 8*n; i++ {
			bit := r.Read()
			vAssert(!r.EOF(), "bitmap-early-eof")
			vAssert(bit == (buf[i/8]&(0x80>>uint(i%8)) != 0), "bitmap-bit")
			vAssert(r.Pos() == uint32(i+1), "bitmap-pos")
		}
		r.Read()
		vAssert(r.EOF(), "bitmap-missing-eof")
		vReach("reader")
	} else {
		k := vRange("k", 0, vParam("BITS", 9))
		w := NewBitmapWriter(nil)
		bits := make([]bool, k)
		for i := range bits {
			bits[i] = vBool("bit")
			w.Write(bits[i])
		}
		vAssert(w.Len() >= int64((k+7)/8), "bitmap-writer-len")
		r := NewBitmapReader(w.Bytes())
		for i := range bits {
			vAssert(r.Read() == bits[i] && !r.EOF(), "bitmap-roundtrip")
		}
		vReach("writer")
	}
}

// VerifBinaryHistory: a bounded history of positional operations (typed reads, Read, ReadAt,
// absolute Seek) on every backend agrees step by step with a reference over the data.
func VerifBinaryHistory() {
	n := vRange("n", 0, vParam("N", 3))
	data := vBytes("d", n)
	orig := append([]byte(nil), data...)
	backend := vRange("backend", 0, vnBackends-1)
	if backend == 1 {
		return // the sequential reader backend cannot seek or ReadAt
	}
	r := vnBinaryReader(data, backend)
	pos := 0
	failed := false
	for k := 0; k < vParam("K", 3); k++ {
		switch vRange("op", 0, 3) {
		case 0: // typed read of 1 or 2 bytes
			size := vRange("size", 1, 2)
			var got uint64
			if size == 1 {
				got = uint64(r.ReadUint8())
			} else {
				got = uint64(r.ReadUint16())
			}
			if pos+size <= n {
				vAssert(got == vnRefUint(orig[pos:pos+size], false), "history-typed-read")
				pos += size
				if !failed {
					vAssert(r.Err() == nil, "history-err-early")
				}
			} else {
				vAssert(got == 0, "history-short-read-nonzero")
				failed = true
				vAssert(r.Err() == io.EOF, "history-err-missing")
				pos = int(r.Pos())
				vAssert(pos <= n, "history-pos-past-end")
			}
		case 1: // ReadAt
			m := vRange("m", 0, n+1)
			off := vRange("off", 0, n)
			buf := make([]byte, m)
			c, err := r.ReadAt(buf, int64(off))
			want := m
			if n-off < want {
				want = n - off
			}
			vAssert(c == want, "history-readat-count")
			vAssert(string(buf[:c]) == string(orig[off:off+c]), "history-readat-data")
			if c < m {
				vAssert(err != nil, "history-readat-short-without-error")
			} else if m > 0 {
				vAssert(err == nil || err == io.EOF, "history-readat-error")
			}
			vAssert(r.Pos() == int64(pos), "history-readat-moved-pos")
		case 2: // absolute Seek inside [0, n]
			t := vRange("target", 0, n)
			got, err := r.Seek(int64(t), 0)
			vAssert(err == nil && got == int64(t) && r.Pos() == int64(t), "history-seek")
			pos = t
		case 3: // Read
			m := vRange("m", 1, n+1)
			buf := make([]byte, m)
			c, err := r.Read(buf)
			want := m
			if n-pos < want {
				want = n - pos
			}
			vAssert(c == want, "history-read-count")
			vAssert(string(buf[:c]) == string(orig[pos:pos+c]), "history-read-data")
			if c == 0 {
				vAssert(err != nil, "history-read-zero-without-error")
			}
			pos += c
			vAssert(r.Pos() == int64(pos), "history-read-pos")
		}
		vAssert(r.Len() == int64(n)-r.Pos(), "history-len")
		if failed {
			vAssert(r.Err() == io.EOF, "history-eof-not-sticky")
		}
	}
	vReach("history")
}

// VerifBinaryClone: a Clone reads the same values as its original from the same position, in the
// same byte order, with the same error state, and the two advance independently.
func VerifBinaryClone() {
	n := vRange("n", 0, vParam("N", 6))
	data := vBytes("d", n)
	r := NewBinaryReaderBytes(append([]byte(nil), data...))
	if vBool("little") {
		r.ByteOrder = binary.LittleEndian
	}
	skip := vRange("skip", 0, 3)
	for i := 0; i < skip; i++ {
		r.ReadUint8()
	}
	c := r.Clone()
	vAssert(c.Pos() == r.Pos() && c.Len() == r.Len() && c.Err() == r.Err(), "clone-state-differs")
	pos := r.Pos()
	switch vRange("op", 0, 3) {
	case 0:
		vAssert(c.ReadUint16() == r.ReadUint16(), "clone-value-differs")
	case 1:
		vAssert(c.ReadUint32() == r.ReadUint32(), "clone-value-differs")
	case 2:
		vAssert(c.ReadInt24() == r.ReadInt24(), "clone-value-differs")
	case 3:
		vAssert(c.ReadUint64() == r.ReadUint64(), "clone-value-differs")
	}
	vAssert(c.Pos() == r.Pos() && c.Err() == r.Err(), "clone-state-differs-after-read")
	// independence: the clone moves on, the original stays
	before := r.Pos()
	c.ReadUint8()
	vAssert(r.Pos() == before, "clone-moves-original")
	_ = pos
	vReach("clone")
}
