//go:build verif

package parse

func refDig(b []byte, i int) bool { return i < len(b) && b[i] >= '0' && b[i] <= '9' }

// refNumber: longest prefix matching (+|-)?([0-9]+(\.[0-9]+)?|\.[0-9]+)((e|E)(+|-)?[0-9]+)?
// written as candidate end positions, longest wins.
func refNumber(b []byte) int {
	i := 0
	if i < len(b) && (b[i] == '+' || b[i] == '-') {
		i++
	}
	j := i
	for refDig(b, j) {
		j++
	}
	end := 0
	if j > i { // [0-9]+
		end = j
		if j < len(b) && b[j] == '.' && refDig(b, j+1) {
			k := j + 1
			for refDig(b, k) {
				k++
			}
			end = k
		}
	} else if j < len(b) && b[j] == '.' && refDig(b, j+1) { // \.[0-9]+
		k := j + 1
		for refDig(b, k) {
			k++
		}
		end = k
	} else {
		return 0
	}
	// optional exponent
	if end < len(b) && (b[end] == 'e' || b[end] == 'E') {
		k := end + 1
		if k < len(b) && (b[k] == '+' || b[k] == '-') {
			k++
		}
		if refDig(b, k) {
			for refDig(b, k) {
				k++
			}
			end = k
		}
	}
	return end
}

func refAlpha(c byte) bool { return c >= 'a' && c <= 'z' || c >= 'A' && c <= 'Z' }

// VerifNumber: Number / Dimension equal the documented regular expressions.
func VerifNumber() {
	n := vRange("n", 0, vParam("N", 3))
	b := vBytes("b", n)
	got := Number(b)
	want := refNumber(b)
	vAssert(got == want, "number-length")
	num, unit := Dimension(b)
	vAssert(num == want, "dimension-number")
	wu := 0
	if want > 0 && want < n {
		if b[want] == '%' {
			wu = 1
		} else {
			for want+wu < n && refAlpha(b[want+wu]) {
				wu++
			}
		}
	}
	vAssert(unit == wu, "dimension-unit")
	vReach("number")
}

func refHexVal(c byte) int {
	switch {
	case c >= '0' && c <= '9':
		return int(c - '0')
	case c >= 'a' && c <= 'f':
		return int(c-'a') + 10
	case c >= 'A' && c <= 'F':
		return int(c-'A') + 10
	}
	return -1
}

// refQueryUnescape: net/url.QueryUnescape restricted to its successful cases
// (validated natively against net/url in selftest); ok=false where net/url errors.
func refQueryUnescape(b []byte) ([]byte, bool) {
	var out []byte
	for i := 0; i < len(b); i++ {
		switch {
		case b[i] == '%':
			if i+2 >= len(b) || refHexVal(b[i+1]) < 0 || refHexVal(b[i+2]) < 0 {
				return nil, false
			}
			out = append(out, byte(refHexVal(b[i+1])<<4|refHexVal(b[i+2])))
			i += 2
		case b[i] == '+':
			out = append(out, ' ')
		default:
			out = append(out, b[i])
		}
	}
	return out, true
}

// VerifURL: EncodeURL escapes exactly the table-marked bytes (upper-case hex);
// DecodeURL inverts it for the URL table and equals QueryUnescape where that succeeds.
func VerifURL() {
	n := vRange("n", 0, vParam("N", 3))
	b := vBytes("b", n)
	orig := append([]byte(nil), b...)
	switch vRange("op", 0, 3) {
	case 3: // arbitrary bytes: no panic, never longer, bytes without '%' and '+' pass through
		dec := DecodeURL(append([]byte(nil), b...))
		vAssert(len(dec) <= n, "decodeurl-longer")
		plain := true
		for _, c := range orig {
			if c == '%' || c == '+' {
				plain = false
			}
		}
		if plain {
			vAssert(string(dec) == string(orig), "decodeurl-changes-plain-text")
		}
		vReach("decode-any")
	case 0:
		table := URLEncodingTable
		if vRange("table", 0, 1) == 1 {
			table = DataURIEncodingTable
		}
		enc := EncodeURL(append([]byte(nil), b...), table)
		var want []byte
		for _, c := range orig {
			if table[c] {
				want = append(want, '%', "0123456789ABCDEF"[c>>4], "0123456789ABCDEF"[c&15])
			} else {
				want = append(want, c)
			}
		}
		vAssert(string(enc) == string(want), "encodeurl")
		vReach("encode")
	case 1:
		enc := EncodeURL(append([]byte(nil), b...), URLEncodingTable)
		dec := DecodeURL(enc)
		vAssert(string(dec) == string(orig), "decode-encode-roundtrip")
		vReach("roundtrip")
	case 2:
		want, ok := refQueryUnescape(orig)
		vAssume(ok)
		dec := DecodeURL(append([]byte(nil), b...))
		vAssert(string(dec) == string(want), "decodeurl-vs-queryunescape")
		vReach("decode")
	}
}

func refLower(c byte) byte {
	if c >= 'A' && c <= 'Z' {
		return c + 32
	}
	return c
}

func refWS(c byte) bool { return c == ' ' || c == '\t' || c == '\n' || c == '\r' || c == '\f' }

// VerifFold: EqualFold, ToLower, TrimWhitespace, IsAllWhitespace, IsWhitespace, IsNewline.
func VerifFold() {
	n := vRange("n", 0, vParam("N", 3))
	b := vBytes("b", n)
	orig := append([]byte(nil), b...)
	switch vRange("op", 0, 3) {
	case 0:
		t := vBytes("t", n)
		for i := range t {
			vAssume(t[i] < 'A' || t[i] > 'Z') // target must be lower case
		}
		want := true
		for i := range t {
			if refLower(orig[i]) != t[i] {
				want = false
			}
		}
		vAssert(EqualFold(b, t) == want, "equalfold")
		if n > 0 {
			vAssert(!EqualFold(b, t[:n-1]), "equalfold-length")
		}
		vReach("equalfold")
	case 1:
		out := ToLower(b)
		vAssert(len(out) == n, "tolower-len")
		for i := range out {
			vAssert(out[i] == refLower(orig[i]), "tolower")
		}
		vReach("tolower")
	case 2:
		out := TrimWhitespace(b)
		s, e := 0, n
		for s < e && refWS(orig[s]) {
			s++
		}
		for e > s && refWS(orig[e-1]) {
			e--
		}
		vAssert(string(out) == string(orig[s:e]), "trimwhitespace")
		vReach("trim")
	case 3:
		all := true
		for i := range orig {
			if !refWS(orig[i]) {
				all = false
			}
			vAssert(IsWhitespace(orig[i]) == refWS(orig[i]), "iswhitespace")
			vAssert(IsNewline(orig[i]) == (orig[i] == '\n' || orig[i] == '\r'), "isnewline")
		}
		vAssert(IsAllWhitespace(b) == all, "isallwhitespace")
		vReach("allws")
	}
	if vRange("unchanged", 0, 0) == 0 {
		_ = orig
	}
}

// VerifMediatype: the mimetype part equals the reference split; no panic on arbitrary bytes;
// every parameter key and value is a piece of the argument without separators.
func VerifMediatype() {
	n := vRange("n", 0, vParam("N", 4))
	b := vBytes("b", n)
	for i := range b {
		c := b[i]
		vAssume(c == 'a' || c == '/' || c == ';' || c == '=' || c == ' ' || c == 'x' || c == '"')
	}
	orig := append([]byte(nil), b...)
	mt, params := Mediatype(b)
	// reference: skip leading spaces; the mimetype ends at the first ';' or ' ' at index >= 3
	s := 0
	for s < n && orig[s] == ' ' {
		s++
	}
	rest := orig[s:]
	end := len(rest)
	for i := 3; i < len(rest); i++ {
		if rest[i] == ';' || rest[i] == ' ' {
			end = i
			break
		}
	}
	vAssert(string(mt) == string(rest[:end]), "mediatype-mimetype")
	for k, v := range params {
		for i := 0; i < len(k); i++ {
			vAssert(k[i] != ';' && k[i] != '=' && k[i] != ' ', "mediatype-param-key")
		}
		for i := 0; i < len(v); i++ {
			vAssert(v[i] != ';' && v[i] != ' ', "mediatype-param-value")
		}
	}
	vReach("mediatype")
}

// VerifDataURI: "data:" + mediatype + "," + percent-encoded payload: media type (text/plain
// when absent) and exact payload; ErrBadDataURI without the scheme or the comma.
func VerifDataURI() {
	n := vRange("n", 0, vParam("N", 3))
	tail := vBytes("b", n)
	for i := range tail {
		c := tail[i]
		vAssume(c == 'a' || c == '/' || c == ';' || c == ',' || c == '%' || c == '4' || c == '1' || c == '+' || c == '=')
	}
	var src []byte
	if vRange("scheme", 0, 1) == 0 {
		src = append([]byte("data:"), tail...)
	} else {
		src = append([]byte("dat:"), tail...)
	}
	orig := append([]byte(nil), src...)
	mt, data, err := DataURI(src)
	comma := -1
	if len(orig) > 5 && string(orig[:5]) == "data:" {
		for i := 5; i < len(orig); i++ {
			if orig[i] == ',' {
				comma = i
				break
			}
		}
	}
	if comma < 0 {
		vAssert(err == ErrBadDataURI, "bad-data-uri-not-reported")
		vReach("bad")
		return
	}
	vAssert(err == nil, "data-uri-rejected")
	want := refPercentDecode(orig[comma+1:])
	vAssert(string(data) == string(want), "data-uri-payload")
	if comma == 5 {
		vAssert(string(mt) == "text/plain", "data-uri-default-mediatype")
	}
	vReach("datauri")
}

// VerifMediatypeParams: a well-formed unquoted media type with up to two parameters and
// solver-chosen optional spaces around ';' and '=': mimetype and every parameter are returned
// (as mime.ParseMediaType does for such values).
func VerifMediatypeParams() {
	sp := func(tag string) []byte {
		if vRange(tag, 0, 1) == 1 {
			return []byte{' '}
		}
		return nil
	}
	src := []byte("a/b")
	np := vRange("params", 0, 2)
	keys := []string{"k", "q"}
	vals := []string{"v", "w1"}
	for i := 0; i < np; i++ {
		src = append(src, sp("s1")...)
		src = append(src, ';')
		src = append(src, sp("s2")...)
		src = append(src, keys[i]...)
		src = append(src, '=')
		src = append(src, vals[i]...)
	}
	src = append(src, sp("s3")...)
	mt, params := Mediatype(append([]byte(nil), src...))
	vAssert(string(mt) == "a/b", "mediatype-mimetype")
	vAssert(len(params) == np, "mediatype-parameter-count")
	for i := 0; i < np; i++ {
		v, ok := params[keys[i]]
		vAssert(ok && v == vals[i], "mediatype-parameter-lost")
	}
	vReach("params")
}

const vnB64 = "ABCDEFGHIJKLMNOPQRSTUVWXYZabcdefghijklmnopqrstuvwxyz0123456789+/"

// vnBase64: standard base64 with padding, written out from RFC 4648 (not the library's decoder)
func vnBase64(p []byte) []byte {
	var out []byte
	for i := 0; i < len(p); i += 3 {
		var b0, b1, b2 byte
		b0 = p[i]
		if i+1 < len(p) {
			b1 = p[i+1]
		}
		if i+2 < len(p) {
			b2 = p[i+2]
		}
		out = append(out, vnB64[b0>>2], vnB64[(b0&3)<<4|b1>>4])
		if i+1 < len(p) {
			out = append(out, vnB64[(b1&15)<<2|b2>>6])
		} else {
			out = append(out, '=')
		}
		if i+2 < len(p) {
			out = append(out, vnB64[b2&63])
		} else {
			out = append(out, '=')
		}
	}
	return out
}

// VerifDataURIRoundTrip: a data: URI obtained by base64- or percent-encoding arbitrary payload
// bytes gives back exactly the payload and the media type (text/plain when absent).
func VerifDataURIRoundTrip() {
	n := vRange("n", 0, vParam("N", 3))
	p := vBytes("p", n)
	payload := append([]byte(nil), p...)
	mts := []string{"", "text/html", "image/png;charset=x", ";charset=y"}
	mi := vRange("mt", 0, len(mts)-1)
	src := append([]byte("data:"), mts[mi]...)
	switch vRange("enc", 0, 2) {
	case 0: // base64
		src = append(src, ";base64,"...)
		src = append(src, vnBase64(p)...)
	case 1: // every byte percent-encoded
		src = append(src, ',')
		const hex = "0123456789ABCDEF"
		for _, c := range p {
			src = append(src, '%', hex[c>>4], hex[c&15])
		}
	case 2: // the library's own URL encoder with the data-URI table
		src = append(src, ',')
		src = append(src, EncodeURL(append([]byte(nil), p...), DataURIEncodingTable)...)
	}
	mt, data, err := DataURI(src)
	vAssert(err == nil, "well-formed-data-uri-rejected")
	if err != nil {
		return
	}
	vAssert(string(data) == string(payload), "data-uri-payload-differs")
	switch mi {
	case 0, 3:
		vAssert(string(mt) == "text/plain", "data-uri-default-mediatype")
	default:
		vAssert(string(mt) == mts[mi], "data-uri-mediatype")
	}
	vReach("roundtrip")
}

// refPercentDecode: RFC 3986 percent-decoding ("%HH" -> byte, everything else literal, '+' too)
func refPercentDecode(b []byte) []byte {
	hexv := func(c byte) int {
		switch {
		case c >= '0' && c <= '9':
			return int(c - '0')
		case c >= 'a' && c <= 'f':
			return int(c-'a') + 10
		case c >= 'A' && c <= 'F':
			return int(c-'A') + 10
		}
		return -1
	}
	var out []byte
	for i := 0; i < len(b); i++ {
		if b[i] == '%' && i+2 < len(b) && hexv(b[i+1]) >= 0 && hexv(b[i+2]) >= 0 {
			out = append(out, byte(hexv(b[i+1])<<4|hexv(b[i+2])))
			i += 2
			continue
		}
		out = append(out, b[i])
	}
	return out
}
