//go:build verif

package buffer

import (
	"errors"
	"io"
	"unicode/utf8"
)

var vnFault = errors.New("vn reader fault")

// vnSchedReader delivers data in chunks whose sizes are chosen by the solver
// (zero-length reads allowed), reports EOF with or after the last bytes, and may
// fail once failAt bytes have been delivered.
type vnSchedReader struct {
	data    []byte
	off     int
	failAt  int  // -1 = never
	eofWith bool // deliver io.EOF together with the last bytes
	calls   int
	faulted bool
}

func (r *vnSchedReader) Read(p []byte) (int, error) {
	r.calls++
	if r.failAt >= 0 && r.off >= r.failAt {
		r.faulted = true
		return 0, vnFault
	}
	if r.off >= len(r.data) {
		return 0, io.EOF
	}
	max := len(r.data) - r.off
	if len(p) < max {
		max = len(p)
	}
	if r.failAt >= 0 && r.failAt-r.off < max {
		max = r.failAt - r.off
	}
	k := max
	if r.calls <= 4 {
		k = vRange("chunk", 0, max)
	}
	copy(p, r.data[r.off:r.off+k])
	r.off += k
	if r.eofWith && r.off == len(r.data) && k > 0 {
		return k, io.EOF
	}
	return k, nil
}

type vnKept struct {
	b    []byte
	copy []byte
	end  int // absolute offset of its end
}

// VerifStream: bounded histories of StreamLexer operations under an arbitrary
// reader schedule agree with a cursor over the completely read input.
func VerifStream() {
	n := vRange("n", 0, vParam("N", 3))
	data := vBytes("d", n)
	size := vRange("size", 0, vParam("S", 2))
	failAt := -1
	if vParam("FAULT", 0) != 0 {
		failAt = vRange("failAt", -1, n)
	}
	rd := &vnSchedReader{data: append([]byte(nil), data...), failAt: failAt, eofWith: vRange("eofWith", 0, 1) == 1}
	z := NewStreamLexerSize(rd, size)
	avail := n // bytes that can ever be delivered
	if failAt >= 0 {
		avail = failAt
	}
	gs, gp := 0, 0 // reference cursor: absolute start and position
	shiftMark := 0 // absolute start at the previous ShiftLen call
	freed := 0
	var kept []vnKept
	K := vParam("K", 3)
	mask := vParam("OPS", 2047)
	var ops []int
	for o := 0; o < 11; o++ {
		if mask&(1<<uint(o)) != 0 {
			ops = append(ops, o)
		}
	}
	for step := 0; step < K; step++ {
		switch ops[vRange("op", 0, len(ops)-1)] {
		case 0: // Peek
			i := vRange("i", 0, 2)
			c := z.Peek(i)
			if gp+i < avail {
				vAssert(c == data[gp+i], "peek-value")
			} else {
				vAssert(c == 0, "peek-past-end-nonzero")
			}
			vReach("peek")
		case 1: // Move forward (contract: not past the end)
			if gp < avail {
				// the contract requires having peeked the byte first
				_ = z.Peek(0)
				z.Move(1)
				gp++
			}
		case 2: // Move back / Rewind
			if gp > gs {
				m := vRange("m", 0, gp-gs)
				z.Rewind(m)
				gp = gs + m
			}
		case 3:
			z.Skip()
			gs = gp
		case 4: // Shift
			b := z.Shift()
			vAssert(string(b) == string(data[gs:gp]), "shift-content")
			kept = append(kept, vnKept{b, append([]byte(nil), b...), gp})
			gs = gp
			vReach("shift")
		case 5: // Lexeme
			b := z.Lexeme()
			vAssert(string(b) == string(data[gs:gp]), "lexeme-content")
			vReach("lexeme")
		case 6: // ShiftLen
			l := z.ShiftLen()
			vAssert(l >= 0, "shiftlen-negative")
			vAssert(l == gs-shiftMark, "shiftlen-value")
			shiftMark = gs
			vReach("shiftlen")
		case 7: // Free what ShiftLen reports
			l := z.ShiftLen()
			vAssert(l == gs-shiftMark, "shiftlen-value")
			shiftMark = gs
			if l >= 0 {
				z.Free(l)
				freed += l
			}
			vReach("free")
		case 8: // PeekRune on valid UTF-8
			if vParam("UTF8", 0) != 0 && failAt < 0 {
				vAssume(utf8.Valid(data))
				if gp < n && utf8.RuneStart(data[gp]) {
					r, w := z.PeekRune(0)
					rr, rw := utf8.DecodeRune(data[gp:])
					vAssert(r == rr && w == rw, "peekrune")
					vReach("peekrune")
				}
			}
		case 10: // Move over bytes that were not peeked, then Shift (Shift reads what is missing)
			if gp < avail && failAt < 0 {
				max := avail - gp
				if max > 3 {
					max = 3
				}
				k := vRange("mk", 1, max)
				z.Move(k)
				gp += k
				b := z.Shift()
				vAssert(string(b) == string(data[gs:gp]), "shift-after-unpeeked-move")
				kept = append(kept, vnKept{b, append([]byte(nil), b...), gp})
				gs = gp
				vReach("moveshift")
			}
		case 9: // Err
			e := z.Err()
			if gp < avail && !rd.faulted {
				vAssert(e == nil, "err-with-unread-data")
			}
			if rd.faulted && gp >= avail {
				vAssert(e == vnFault, "fault-not-reported")
			}
			if e == io.EOF {
				vAssert(gp >= n && failAt < 0 || gp >= avail, "eof-before-end")
			}
			vReach("err")
		}
		vAssert(z.Pos() == gp-gs, "pos")
		// every unfreed token is still intact
		for _, k := range kept {
			if freed < k.end {
				vAssert(string(k.b) == string(k.copy), "unfreed-token-overwritten")
			}
		}
	}
}

// vnFixedReader delivers at most ch bytes per Read.
type vnFixedReader struct {
	data []byte
	off  int
	ch   int
}

func (r *vnFixedReader) Read(p []byte) (int, error) {
	if r.off >= len(r.data) {
		return 0, io.EOF
	}
	k := len(r.data) - r.off
	if k > r.ch {
		k = r.ch
	}
	if k > len(p) {
		k = len(p)
	}
	copy(p, r.data[r.off:r.off+k])
	r.off += k
	return k, nil
}

// VerifStreamTokens: longer histories of whole-token operations (take a 1-2 byte token,
// free some of the shifted bytes, peek ahead) under a reader that delivers fixed small
// chunks: every token stays intact until enough bytes have been freed.
func VerifStreamTokens() {
	n := vParam("N", 6)
	data := vBytes("d", n)
	size := vRange("size", vParam("SMIN", 1), vParam("S", 4))
	ch := vRange("ch", 1, vParam("CH", 2))
	z := NewStreamLexerSize(&vnFixedReader{data: append([]byte(nil), data...), ch: ch}, size)
	gp := 0 // absolute position = start (every token is shifted at once)
	freed := 0
	var kept []vnKept
	for step := 0; step < vParam("K", 6); step++ {
		switch vRange("op", 0, 2) {
		case 0: // take a token of 1 or 2 bytes
			l := vRange("len", 1, 2)
			if gp+l > n {
				l = n - gp
			}
			for j := 0; j < l; j++ {
				c := z.Peek(0)
				vAssert(c == data[gp+j], "token-byte")
				z.Move(1)
			}
			b := z.Shift()
			vAssert(string(b) == string(data[gp:gp+l]), "shift-content")
			gp += l
			if l > 0 {
				kept = append(kept, vnKept{b, append([]byte(nil), b...), gp})
			}
		case 1: // free some of the shifted, not yet freed bytes
			k := vRange("free", 0, gp-freed)
			z.Free(k)
			freed += k
		case 2: // look ahead (may refill)
			j := vRange("ahead", 0, 2)
			c := z.Peek(j)
			if gp+j < n {
				vAssert(c == data[gp+j], "peek-value")
			} else {
				vAssert(c == 0, "peek-past-end-nonzero")
			}
		}
		for _, k := range kept {
			if freed < k.end {
				vAssert(string(k.b) == string(k.copy), "unfreed-token-overwritten")
			}
		}
		if vParam("IMM", 0) != 0 {
			// immediate-Free discipline: everything shifted is released at once, so the memory
			// held stays bounded: at most two pooled blocks, each bounded by size + longest look-ahead
			z.Free(gp - freed)
			freed = gp
			total := cap(z.buf)
			for _, blk := range z.pool.pool {
				total += cap(blk.buf)
			}
			vAssert(len(z.pool.pool) <= 2, "pool-grows-although-everything-is-freed")
			vAssert(total <= 3*(2*size+8), "memory-grows-although-everything-is-freed")
		}
	}
	vReach("tokens")
}

// VerifStreamMemory: the bounded-memory clause on a long stream. M tokens of TL bytes are taken
// one after the other; every token is freed one token late (lagging Free) or at once. The reader
// delivers chunks of CH bytes, the initial buffer size is solver-chosen. Results stay those of a
// cursor over the data, and the memory held (current buffer + pooled blocks) stays below a bound
// that does not depend on the stream length: the pool may warm up to a handful of blocks
// (measured natively: <= 8 over 20000 bytes for every size/chunk/token length used here), while a
// pool that stops recycling grows by one block per refill and crosses the bound within M tokens.
func VerifStreamMemory() {
	m := vParam("M", 40)
	tl := vRange("tl", 1, vParam("TL", 3))
	n := m * tl
	data := vBytes("d", n)
	size := vRange("size", 1, vParam("S", 4))
	ch := vRange("ch", 1, vParam("CH", 3))
	lag := vBool("lag")
	z := NewStreamLexerSize(&vnFixedReader{data: append([]byte(nil), data...), ch: ch}, size)
	prev := 0
	for i := 0; i < m; i++ {
		for j := 0; j < tl; j++ {
			vAssert(z.Peek(0) == data[i*tl+j], "memory-run-byte")
			z.Move(1)
		}
		b := z.Shift()
		vAssert(string(b) == string(data[i*tl:(i+1)*tl]), "memory-run-token")
		if lag {
			z.Free(prev)
			prev = len(b)
		} else {
			z.Free(len(b))
		}
		total := cap(z.buf)
		for _, blk := range z.pool.pool {
			total += cap(blk.buf)
		}
		vAssert(len(z.pool.pool) <= 8, "pool-grows-with-the-stream")
		vAssert(total <= 8*(2*size+4*tl+8), "memory-grows-with-the-stream")
	}
	vReach("memory")
}

// VerifStreamPeekRune: PeekRune on valid UTF-8 (1..4 byte sequences, every lead byte class) equals
// unicode/utf8 under any chunking of the reader.
func VerifStreamPeekRune() {
	n := vRange("n", 1, vParam("N", 4))
	data := vBytes("d", n)
	vAssume(utf8.Valid(data))
	size := vRange("size", 1, 2)
	ch := vRange("ch", 1, 2)
	z := NewStreamLexerSize(&vnFixedReader{data: append([]byte(nil), data...), ch: ch}, size)
	pos := 0
	for pos < n {
		r, w := z.PeekRune(0)
		rr, rw := utf8.DecodeRune(data[pos:])
		vAssert(r == rr && w == rw, "stream-peekrune")
		z.Move(w)
		pos += w
		if vBool("skip") {
			z.Skip()
		}
	}
	vReach("peekrune")
}
