//go:build verif

package buffer

import (
	"io"
	"unicode/utf8"
)

func vnRefAt(data []byte, i int) byte {
	if i < len(data) {
		return data[i]
	}
	return 0
}

// VerifLexerStep: one buffer.Lexer operation from an arbitrary valid cursor state
// (0 <= start <= pos <= n) equals the reference cursor.
func VerifLexerStep() {
	n := vRange("n", 0, vParam("N", 3))
	b := vBytes("b", n)
	data := append([]byte(nil), b...)
	var z *Lexer
	if vRange("ctor", 0, 1) == 0 {
		z = NewLexerBytes(append(make([]byte, 0, n+1), b...))
	} else {
		z = NewLexerBytes(b)
	}
	start := vRange("start", 0, n)
	pos := vRange("pos", start, n)
	z.start, z.pos = start, pos
	whole := z.Bytes()
	vAssert(len(whole) == n && string(whole) == string(data), "bytes-content")
	vAssert(z.Pos() == pos-start && z.Offset() == pos, "pos-offset")
	switch vRange("op", 0, 8) {
	case 0:
		i := vRange("i", 0, n-pos)
		vAssert(z.Peek(i) == vnRefAt(data, pos+i), "peek")
		vReach("peek")
	case 1:
		i := vRange("i", 0, n-pos+1)
		e := z.PeekErr(i)
		if pos+i >= n {
			vAssert(e == io.EOF, "peekerr-eof-missing")
		} else {
			vAssert(e == nil, "peekerr-early-eof")
		}
		vAssert((z.Err() == io.EOF) == (pos >= n), "err")
		vReach("err")
	case 2:
		k := vRange("k", start-pos, n-pos)
		z.Move(k)
		vAssert(z.Offset() == pos+k && z.Pos() == pos+k-start, "move")
		m := vRange("m", 0, n-start)
		z.Rewind(m)
		vAssert(z.Offset() == start+m && z.Pos() == m, "rewind")
		vReach("move")
	case 3:
		l := z.Lexeme()
		vAssert(len(l) == pos-start && cap(l) == len(l), "lexeme-len-cap")
		vAssert(string(l) == string(data[start:pos]), "lexeme-content")
		vReach("lexeme")
	case 4:
		l := z.Shift()
		vAssert(len(l) == pos-start && cap(l) == len(l), "shift-len-cap")
		vAssert(string(l) == string(data[start:pos]), "shift-content")
		vAssert(z.Pos() == 0 && z.Offset() == pos && len(z.Lexeme()) == 0, "shift-state")
		vReach("shift")
	case 5:
		z.Skip()
		vAssert(z.Pos() == 0 && z.Offset() == pos && len(z.Lexeme()) == 0, "skip")
		vReach("skip")
	case 6:
		z.Reset()
		vAssert(z.Pos() == 0 && z.Offset() == 0 && len(z.Lexeme()) == 0, "reset")
		vAssert(z.Peek(0) == vnRefAt(data, 0), "reset-peek")
		vReach("reset")
	case 7: // PeekRune at any position: never a width reaching past the end (no NUL bytes in the data)
		for j := range data {
			vAssume(data[j] != 0)
		}
		i := vRange("i", 0, n-pos)
		r, w := z.PeekRune(i)
		rest := n - (pos + i)
		vAssert(w >= 1 && w <= 4, "peekrune-width-range")
		if rest > 0 {
			vAssert(w <= rest, "peekrune-width-past-end")
		} else {
			vAssert(r == 0 && w == 1, "peekrune-at-end")
		}
		vReach("peekrune")
	case 8: // PeekRune agrees with unicode/utf8 on valid UTF-8
		vAssume(utf8.Valid(data))
		i := vRange("i", 0, n-pos)
		vAssume(pos+i < n && utf8.RuneStart(data[pos+i]) && data[pos+i] != 0)
		for j := range data {
			vAssume(data[j] != 0)
		}
		r, w := z.PeekRune(i)
		rr, rw := utf8.DecodeRune(data[pos+i:])
		vAssert(r == rr && w == rw, "peekrune-utf8")
		vReach("peekrune-utf8")
	}
	vAssert(string(z.Bytes()) == string(data), "data-modified")
}

type vnBytesReader struct{ b []byte }

func (r *vnBytesReader) Read(p []byte) (int, error) { return 0, io.EOF }
func (r *vnBytesReader) Bytes() []byte              { return r.b }

// VerifLexerCtor: buffer.NewLexer over any reader delivers exactly the reader's bytes followed by
// the terminator; a reader that fails (before or after delivering data) gives a Lexer with no
// data whose Err() is the reader's own error; nil reader and empty reader report io.EOF.
func VerifLexerCtor() {
	n := vRange("n", 0, vParam("N", 3))
	b := vBytes("b", n)
	data := append([]byte(nil), b...)
	switch vRange("ctor", 0, 3) {
	case 0: // plain reader: solver-chosen chunking (zero-length reads, EOF with or after the data)
		z := NewLexer(&vnSchedReader{data: data, failAt: -1, eofWith: vBool("eofWith")})
		vAssert(string(z.Bytes()) == string(data) && z.Peek(n) == 0, "lexer-ctor-reader-data")
		if n > 0 {
			vAssert(z.Err() == nil, "lexer-ctor-reader-err")
		} else {
			vAssert(z.Err() == io.EOF, "lexer-ctor-empty-eof")
		}
		vAssert(z.PeekErr(n) == io.EOF, "lexer-ctor-eof-at-end")
		vReach("reader")
	case 1: // reader failing once failAt bytes have been delivered
		failAt := vRange("failAt", 0, n)
		z := NewLexer(&vnSchedReader{data: data, failAt: failAt})
		vAssert(z.Err() == vnFault, "lexer-ctor-reader-error-lost")
		vAssert(z.PeekErr(0) == vnFault, "lexer-ctor-reader-error-lost-peekerr")
		vAssert(z.Peek(0) == 0 && len(z.Bytes()) == 0, "lexer-ctor-reader-error-data")
		vReach("reader-fail")
	case 2: // reader with Bytes(): the buffer is used as is
		z := NewLexer(&vnBytesReader{append(make([]byte, 0, n+1), b...)})
		vAssert(string(z.Bytes()) == string(data) && z.Peek(n) == 0, "lexer-ctor-bytes")
		z.Restore()
		vReach("bytes")
	case 3:
		z := NewLexer(nil)
		vAssert(len(z.Bytes()) == 0 && z.Peek(0) == 0 && z.Err() == io.EOF, "lexer-ctor-nil")
		vReach("nil")
	}
}
