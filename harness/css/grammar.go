//go:build verif

package css

import (
	"github.com/tdewolff/parse/v2"
)

func vnLexOne(b []byte) (TokenType, []byte, TokenType) {
	l := NewLexer(parse.NewInputBytes(append(make([]byte, 0, len(b)+1), b...)))
	tt, d := l.Next()
	tt2, _ := l.Next()
	return tt, d, tt2
}

// VerifIsIdent: for a non-empty argument IsIdent is true exactly when the whole argument
// lexes as one identifier or custom-property name; IsURLUnquoted(b) implies url(b) is one
// URL token; neither helper modifies its argument or the byte after it.
func VerifIsIdent() {
	n := vRange("n", 1, vParam("N", 3))
	b := vBytes("b", n)
	extra := vByte("extra")
	var arg []byte
	if vRange("cap", 0, 1) == 0 {
		arr := append(append(make([]byte, 0, n+1), b...), extra)
		arg = arr[:n]
	} else {
		arg = append([]byte(nil), b...)
		arg = arg[:n:n]
	}
	if vRange("fn", 0, 1) == 0 {
		got := IsIdent(arg)
		tt, d, tt2 := vnLexOne(b)
		whole := (tt == IdentToken || tt == CustomPropertyNameToken) && len(d) == n && tt2 == ErrorToken
		vAssert(got == whole, "isident-disagrees-with-lexer")
		vReach("isident")
	} else {
		got := IsURLUnquoted(arg)
		if got {
			u := append(append([]byte("url("), b...), ')')
			tt, d, tt2 := vnLexOne(u)
			vAssert(tt == URLToken && len(d) == len(u) && tt2 == ErrorToken, "isurlunquoted-but-not-one-url-token")
			vReach("isurl")
		}
	}
	vAssert(string(arg) == string(b), "argument-modified")
	if cap(arg) > n {
		vAssert(arg[:n+1][n] == extra, "borrowed-byte-not-restored")
	}
}

// ---- reference predicates transcribed from the CSS Syntax 3 railroad diagrams (ASCII, no escapes) ----

func refDigit(c byte) bool     { return c >= '0' && c <= '9' }
func refNameStart(c byte) bool { return c >= 'a' && c <= 'z' || c >= 'A' && c <= 'Z' || c == '_' }
func refName(c byte) bool      { return refNameStart(c) || refDigit(c) || c == '-' }
func refWSc(c byte) bool       { return c == ' ' || c == '\t' || c == '\n' || c == '\r' || c == '\f' }

func at(b []byte, i int) byte {
	if i < len(b) {
		return b[i]
	}
	return 0
}

// refIdentLen: length of an identifier at i (no escapes, ASCII), 0 if none.
func refIdentLen(b []byte, i int) int {
	j := i
	if at(b, j) == '-' {
		j++
		if at(b, j) == '-' { // custom property style
			j++
			for j < len(b) && refName(b[j]) {
				j++
			}
			return j - i
		}
	}
	if j >= len(b) || !refNameStart(b[j]) {
		return 0
	}
	for j < len(b) && refName(b[j]) {
		j++
	}
	return j - i
}

// refNumberLen: <number-token> length at i, 0 if none.
func refNumberLen(b []byte, i int) int {
	j := i
	if at(b, j) == '+' || at(b, j) == '-' {
		j++
	}
	k := j
	for refDigit(at(b, k)) && k < len(b) {
		k++
	}
	intDigits := k - j
	if at(b, k) == '.' && k+1 < len(b) && refDigit(b[k+1]) {
		k += 2
		for k < len(b) && refDigit(b[k]) {
			k++
		}
	} else if intDigits == 0 {
		return 0
	}
	if at(b, k) == 'e' || at(b, k) == 'E' {
		m := k + 1
		if at(b, m) == '+' || at(b, m) == '-' {
			m++
		}
		if m < len(b) && refDigit(b[m]) {
			for m < len(b) && refDigit(b[m]) {
				m++
			}
			k = m
		}
	}
	return k - i
}

// VerifTokenRef: single Next from the start of a buffer against per-kind reference
// predicates (one-way: if the reference says the buffer begins with token K of length m,
// the lexer returns exactly (K, b[:m])). ASCII bytes, no backslash escapes.
func VerifTokenRef() {
	n := vRange("n", 1, vParam("N", 3))
	b := vBytes("b", n)
	for i := range b {
		vAssume(b[i] < 0x80 && b[i] != '\\' && b[i] != 0)
	}
	tt, d, _ := vnLexOne(b)
	c := b[0]
	expect := func(want TokenType, m int, label string) {
		vAssert(tt == want && len(d) == m, label)
		vReach(label)
	}
	switch {
	case refWSc(c):
		m := 0
		for m < n && refWSc(b[m]) {
			m++
		}
		expect(WhitespaceToken, m, "whitespace")
	case c == '/' && at(b, 1) == '*':
		m := n
		for j := 2; j+1 < n; j++ {
			if b[j] == '*' && b[j+1] == '/' {
				m = j + 2
				break
			}
		}
		expect(CommentToken, m, "comment")
	case c == '<' && at(b, 1) == '!' && at(b, 2) == '-' && at(b, 3) == '-':
		expect(CDOToken, 4, "cdo")
	case c == '-' && at(b, 1) == '-' && at(b, 2) == '>':
		expect(CDCToken, 3, "cdc")
	case c == ':':
		expect(ColonToken, 1, "colon")
	case c == ';':
		expect(SemicolonToken, 1, "semicolon")
	case c == ',':
		expect(CommaToken, 1, "comma")
	case c == '(':
		expect(LeftParenthesisToken, 1, "lparen")
	case c == ')':
		expect(RightParenthesisToken, 1, "rparen")
	case c == '[':
		expect(LeftBracketToken, 1, "lbracket")
	case c == ']':
		expect(RightBracketToken, 1, "rbracket")
	case c == '{':
		expect(LeftBraceToken, 1, "lbrace")
	case c == '}':
		expect(RightBraceToken, 1, "rbrace")
	case c == '~' && at(b, 1) == '=':
		expect(IncludeMatchToken, 2, "includematch")
	case c == '|' && at(b, 1) == '=':
		expect(DashMatchToken, 2, "dashmatch")
	case c == '^' && at(b, 1) == '=':
		expect(PrefixMatchToken, 2, "prefixmatch")
	case c == '$' && at(b, 1) == '=':
		expect(SuffixMatchToken, 2, "suffixmatch")
	case c == '*' && at(b, 1) == '=':
		expect(SubstringMatchToken, 2, "substringmatch")
	case c == '|' && at(b, 1) == '|':
		expect(ColumnToken, 2, "column")
	case c == '"' || c == '\'':
		// string: ends at the matching quote; a raw newline gives BadString ending after it
		m, bad := n, false
		for j := 1; j < n; j++ {
			if b[j] == c {
				m = j + 1
				break
			}
			if b[j] == '\n' || b[j] == '\r' || b[j] == '\f' {
				m, bad = j+1, true
				break
			}
		}
		if bad {
			expect(BadStringToken, m, "badstring")
		} else {
			expect(StringToken, m, "string")
		}
	case c == '#':
		m := 1
		for m < n && refName(b[m]) {
			m++
		}
		if m > 1 {
			expect(HashToken, m, "hash")
		} else {
			expect(DelimToken, 1, "delim-hash")
		}
	case c == '@':
		if m := refIdentLen(b, 1); m > 0 {
			expect(AtKeywordToken, 1+m, "atkeyword")
		} else {
			expect(DelimToken, 1, "delim-at")
		}
	case refNumberLen(b, 0) > 0 && !((c == 'u' || c == 'U') && at(b, 1) == '+'):
		m := refNumberLen(b, 0)
		if at(b, m) == '%' {
			expect(PercentageToken, m+1, "percentage")
		} else if u := refIdentLen(b, m); u > 0 {
			expect(DimensionToken, m+u, "dimension")
		} else {
			expect(NumberToken, m, "number")
		}
	case refIdentLen(b, 0) > 0 && !((c == 'u' || c == 'U') && at(b, 1) == '+'):
		m := refIdentLen(b, 0)
		if at(b, m) == '(' {
			isURL := m == 3 && (b[0] == 'u' || b[0] == 'U') && (b[1] == 'r' || b[1] == 'R') && (b[2] == 'l' || b[2] == 'L')
			dashed := c == '-' && at(b, 1) == '-' // deliberate lexer extra: "--name(" is a custom property name, then "("
			if !isURL && !dashed {
				expect(FunctionToken, m+1, "function")
			}
		} else if c == '-' && at(b, 1) == '-' {
			expect(CustomPropertyNameToken, m, "customproperty")
		} else {
			expect(IdentToken, m, "ident")
		}
	}
}

func refHexC(c byte) bool { return refDigit(c) || c >= 'a' && c <= 'f' || c >= 'A' && c <= 'F' }

// VerifEscape: identifier with a hex escape: `a\` + up to 8 symbolic bytes: an escape is
// 1-6 hex digits and optionally ONE whitespace; what follows is lexed on its own.
func VerifEscape() {
	n := vRange("n", 1, vParam("N", 4))
	tail := vBytes("b", n)
	for i := range tail {
		c := tail[i]
		vAssume(refHexC(c) && (c == '0' || c == '2' || c == 'a' || c == 'F') || c == ' ' || c == 'x' || c == ';')
	}
	vAssume(refHexC(tail[0]))
	ph := vRange("ph", 0, vParam("PH", 0)) // concrete leading hex digits, to reach the 6-digit limit with a short tail
	src := []byte("a\\")
	for k := 0; k < ph; k++ {
		src = append(src, '0')
	}
	src = append(src, tail...)
	// reference length of the identifier: a, backslash, hex run (max 6), one optional whitespace, then name characters
	i := 0
	for i < n && i+ph < 6 && refHexC(tail[i]) {
		i++
	}
	if i < n && tail[i] == ' ' {
		i++
	}
	for i < n && (refName(tail[i])) {
		i++
	}
	tt, d, _ := vnLexOne(src)
	vAssert(tt == IdentToken, "escape-ident-type")
	vAssert(len(d) == 2+ph+i, "escape-ident-length")
	vReach("escape")
}

// VerifUnicodeRange: "U+" + hex digits / '?' / range: a well-formed unicode-range (1-6 hex
// digits, or hex digits padded with '?' to at most 6, or two 1-6 digit bounds) is one token.
func VerifUnicodeRange() {
	ph := vRange("ph", 0, vParam("PH", 3))
	n := vRange("n", 1, vParam("N", 4))
	tail := vBytes("b", n)
	for i := range tail {
		c := tail[i]
		vAssume(c == '0' || c == 'F' || c == 'a' || c == '?' || c == '-' || c == 'g' || c == ' ' || c == ';')
	}
	src := []byte("U+")
	for k := 0; k < ph; k++ {
		src = append(src, '0')
	}
	src = append(src, tail...)
	// reference
	i := 2
	h1 := 0
	for i < len(src) && refHexC(src[i]) {
		i++
		h1++
	}
	q := 0
	for i < len(src) && src[i] == '?' {
		i++
		q++
	}
	want := -1
	if q > 0 {
		if h1+q <= 6 {
			want = i
		}
	} else if h1 >= 1 && h1 <= 6 {
		want = i
		if i < len(src) && src[i] == '-' {
			j := i + 1
			h2 := 0
			for j < len(src) && refHexC(src[j]) {
				j++
				h2++
			}
			if h2 >= 1 && h2 <= 6 {
				want = j
			} else {
				// "U+1-" without a following hex digit: the library's own test suite pins
				// [Ident Number Delim] here (the spec would give UnicodeRange Delim): no claim.
				// More than 6 digits: not a well-formed range: no claim.
				want = -1
			}
		}
	}
	if want < 0 {
		return
	}
	tt, d, _ := vnLexOne(src)
	vAssert(tt == UnicodeRangeToken && len(d) == want, "unicode-range-token")
	vReach("unicode-range")
}

// refEscapeLen: length of a valid escape at i (backslash, then 1-6 hex digits + optional
// whitespace, or any character that is not a newline), 0 if none.
func refEscapeLen(b []byte, i int) int {
	if i+1 >= len(b) || b[i] != '\\' {
		return 0
	}
	c := b[i+1]
	if c == '\n' || c == '\r' || c == '\f' {
		return 0
	}
	if refHexC(c) {
		j := i + 1
		for j < len(b) && j < i+7 && refHexC(b[j]) {
			j++
		}
		if j < len(b) && refWSc(b[j]) {
			j++
		}
		return j - i
	}
	return 2
}

// VerifURLToken: "url(" + body: an unquoted url ends at ')'; whitespace may only precede the
// ')'; a quote, '(' or non-printable makes it a bad url that extends to the matching ')' with
// escapes honoured (an escaped ')' does not end it).
func VerifURLToken() {
	n := vRange("n", 0, vParam("N", 4))
	tail := vBytes("b", n)
	for i := range tail {
		c := tail[i]
		vAssume(c == 'a' || c == ' ' || c == '\\' || c == ')' || c == '(' || c == '"' || c == 'd' || c == 0xC3 || c == 0xA9 || c == 0x7F || c == 0x80)
	}
	for i := 0; i+1 < n; i++ {
		vAssume(!(tail[i] == '\\' && tail[i+1] >= 0x80)) // escaped non-ASCII: the escape reference here is ASCII only
	}
	src := append([]byte("url("), tail...)
	i := 4
	for i < len(src) && refWSc(src[i]) {
		i++
	}
	if i < len(src) && (src[i] == '"' || src[i] == '\'') {
		return // quoted urls: not modelled by this reference
	}
	bad := false
	end := -1
	for i < len(src) {
		c := src[i]
		if c == ')' {
			end = i + 1
			break
		}
		if refWSc(c) {
			for i < len(src) && refWSc(src[i]) {
				i++
			}
			if i >= len(src) {
				end = i
			} else if src[i] == ')' {
				end = i + 1
			} else {
				bad = true
			}
			break
		}
		if c == '"' || c == '\'' || c == '(' || c <= 0x1F || c == 0x7F {
			bad = true
			break
		}
		if c == '\\' {
			if e := refEscapeLen(src, i); e > 0 {
				i += e
				continue
			}
			bad = true
			break
		}
		i++
	}
	if !bad {
		if end < 0 {
			end = len(src)
		}
		tt, d, _ := vnLexOne(src)
		vAssert(tt == URLToken && len(d) == end, "url-token")
		vReach("url")
		return
	}
	// bad url: consume to the matching ')' honouring escapes, or to the end
	for i < len(src) {
		if src[i] == ')' {
			i++
			break
		}
		if e := refEscapeLen(src, i); e > 0 {
			i += e
			continue
		}
		i++
	}
	tt, d, _ := vnLexOne(src)
	vAssert(tt == BadURLToken && len(d) == i, "bad-url-token")
	vReach("badurl")
}
