//go:build verif

package css

import (
	"io"

	"github.com/tdewolff/parse/v2"
)

type vnTok struct {
	tt         TokenType
	start, end int
}

func vnLexAll(b []byte) []vnTok {
	n := len(b)
	z := parse.NewInputBytes(append(make([]byte, 0, n+1), b...))
	l := NewLexer(z)
	var out []vnTok
	pos := 0
	for i := 0; i < n+1; i++ {
		tt, data := l.Next()
		if tt == ErrorToken {
			break
		}
		out = append(out, vnTok{tt, pos, pos + len(data)})
		pos += len(data)
	}
	return out
}

func vnLowerEq(a, b []byte) bool {
	if len(a) != len(b) {
		return false
	}
	for i := range a {
		x, y := a[i], b[i]
		if x >= 'A' && x <= 'Z' {
			x += 'a' - 'A'
		}
		if y >= 'A' && y <= 'Z' {
			y += 'a' - 'A'
		}
		if x != y {
			return false
		}
	}
	return true
}

var vnParsePrefixes = []string{"--x:", "a{--x:", "a{b:", "a{b:c(", "@media ", "@media a{", "@font-face{", "a:not(", "a{*", "a[b", "@x ", "a{b:c;--y:[", "<!--", "a{@media{", "@supports(a:b){c{", "a{b:c d;", "b:c d;", "a{--x:1;"}

const (
	vnP01 = 1
	vnP08 = 2
)

// vnParseW drives css.Parser (stylesheet or inline) over every byte string of length 0..N.
func vnParseW(mode int) {
	n := vRange("n", 0, vParam("N", 2))
	b := vBytes("b", n)
	if vParam("alpha", 0) != 0 {
		// restricted alphabet run: a @ { } ( ) [ ] ; : , * - / space "
		for i := range b {
			c := b[i]
			vAssume(c == 'a' || c == '@' || c == '{' || c == '}' || c == '(' || c == ')' || c == '[' || c == ']' || c == ';' || c == ':' || c == ',' || c == '*' || c == '-' || c == '/' || c == ' ' || c == '"')
		}
	}
	if vParam("PRE", 0) != 0 {
		// sketches: a concrete construct prefix followed by the symbolic bytes
		pre := vnParsePrefixes[vRange("pre", 0, len(vnParsePrefixes)-1)]
		b = append([]byte(pre), b...)
		n = len(b)
	}
	inline := vRange("inline", 0, 1) == 1
	orig := append([]byte(nil), b...)
	z := parse.NewInputBytes(append(make([]byte, 0, n+1), b...))
	whole := z.Bytes()
	var T []vnTok
	if mode&vnP08 != 0 {
		T = vnLexAll(orig)
	}
	p := NewParser(z, inline)
	depth := 0
	var stack []GrammarType
	hadParseError := false
	ended := false
	k := 0 // provenance cursor into T
	for i := 0; i < 3*n+8; i++ {
		gt, tt, data := p.Next()
		vals := p.Values()
		vObserve("unit", int(gt), int(tt), data, len(vals))
		if mode&vnP01 != 0 {
			vAssert(p.Offset() <= n, "offset-past-end")
		}
		if gt == ErrorGrammar {
			if p.HasParseError() {
				hadParseError = true
				vReach("parse-error")
				_ = p.Err()
				if mode&vnP08 != 0 {
					// the tokens an error unit reports through Values() are input tokens in source order too
					for _, v := range vals {
						off := vOffsetIn(v.Data, whole)
						if off < 0 || len(v.Data) == 0 || v.TokenType == WhitespaceToken && len(v.Data) == 1 {
							continue // synthetic tokens (single space, the closing brace of a block)
						}
						found := false
						for k < len(T) {
							t := T[k]
							k++
							if t.start == off && t.end == off+len(v.Data) && t.tt == v.TokenType {
								found = true
								break
							}
						}
						vAssert(found, "error-unit-values-not-in-source-order")
					}
				}
				continue
			}
			vAssert(p.Err() == io.EOF, "error-without-eof")
			vReach("eof")
			ended = true
			if mode&vnP08 != 0 && !hadParseError {
				vAssert(len(stack) == 0, "unclosed-at-eof")
			}
			if mode&vnP01 != 0 {
				gt2, _, _ := p.Next()
				vAssert(gt2 == ErrorGrammar && !p.HasParseError() && p.Err() == io.EOF, "eof-not-sticky")
			}
			break
		}
		if mode&vnP08 != 0 {
			switch gt {
			case BeginAtRuleGrammar, BeginRulesetGrammar:
				stack = append(stack, gt)
				depth++
			case EndAtRuleGrammar:
				depth--
				vAssert(depth >= 0, "negative-depth")
				if !hadParseError {
					vAssert(len(stack) > 0 && stack[len(stack)-1] == BeginAtRuleGrammar, "end-at-rule-mismatch")
				}
				if len(stack) > 0 {
					stack = stack[:len(stack)-1]
				}
			case EndRulesetGrammar:
				depth--
				vAssert(depth >= 0, "negative-depth")
				if !hadParseError {
					vAssert(len(stack) > 0 && stack[len(stack)-1] == BeginRulesetGrammar, "end-ruleset-mismatch")
				}
				if len(stack) > 0 {
					stack = stack[:len(stack)-1]
				}
			}
			// provenance: every token reported through Values() is a lexer token of the input, in source order
			if gt != AtRuleGrammar && gt != BeginAtRuleGrammar && gt != BeginRulesetGrammar && gt != DeclarationGrammar && gt != QualifiedRuleGrammar {
				vals = nil // Values() is only defined for these units
			}
			for _, v := range vals {
				if v.TokenType == WhitespaceToken && vOffsetIn(v.Data, wsBytes) == 0 && len(v.Data) == 1 {
					continue // synthetic single space
				}
				if v.TokenType == CustomPropertyValueToken {
					continue // checked below
				}
				off := vOffsetIn(v.Data, whole)
				if off < 0 || len(v.Data) == 0 {
					// copies: IE hack "*"+ident; must still equal consecutive lexer tokens
					vReach("values-copy")
					continue
				}
				found := false
				for k < len(T) {
					t := T[k]
					k++
					if t.start == off && t.end == off+len(v.Data) && t.tt == v.TokenType {
						found = true
						break
					}
				}
				vAssert(found, "values-token-not-in-source-order")
			}
			if cv := p.Values(); gt == CustomPropertyGrammar && len(cv) == 1 {
				// custom property value is exact source text: a contiguous span of the input
				v := cv[0].Data
				okSpan := false
				for s := 0; s+len(v) <= n; s++ {
					if string(orig[s:s+len(v)]) == string(v) {
						okSpan = true
						break
					}
				}
				vAssert(okSpan, "custom-property-value-not-source-text")
				vReach("custom-property")
			}
		}
	}
	vAssert(ended, "no-termination")
}

func VerifParseW01() { vnParseW(vnP01) }
func VerifParseW08() { vnParseW(vnP08) }

var vnSelSketches = [][]string{
	{"a", ":not(", "[b]", ")", "c", "{x:y}"},
	{"a", "[b=c]", "d", ">", "e", "{x:y}"},
	{"ul", ":is(", "li", ",", "p", ")", "b", "{x:y}"},
	{"a", "+", "b", "~", "c", "d", "{x:y}"},
	{".a", "#b", "::c", "d", "{x:y}"},
}

// VerifSelectorWS: selector sketches with a solver-chosen separator (nothing, space, comment,
// space+comment) at every token boundary: Values() of the BeginRuleset unit equals the source's
// component tokens, whitespace kept as one token only between two tokens that are not
// punctuation and not inside an attribute selector.
func VerifSelectorWS() {
	atoms := vnSelSketches[vRange("sketch", 0, len(vnSelSketches)-1)]
	seps := make([]int, len(atoms))
	var src []byte
	// a window of WIN consecutive token boundaries gets a solver-chosen separator, the others none
	// (6^7 combinations for the longest sketch otherwise); the window position is solver-chosen too
	win := vParam("WIN", 4)
	start := 1
	if len(atoms)-win > 1 {
		start = vRange("start", 1, len(atoms)-win)
	}
	for i, a := range atoms {
		if i >= start && i < start+win {
			seps[i] = vRange("sep", 0, 5)
			switch seps[i] {
			case 1: // any single CSS whitespace byte
				ws := vByte("ws")
				vAssume(ws == ' ' || ws == '\t' || ws == '\n' || ws == '\r' || ws == '\f')
				src = append(src, ws)
			case 2:
				src = append(src, "/**/"...)
			case 3:
				src = append(src, " /**/ "...)
			case 4:
				src = append(src, " /**/"...)
			case 5:
				src = append(src, "/**/ "...)
			}
		}
		src = append(src, a...)
	}
	// reference: lex the source; keep non-whitespace/comment tokens; a single space where
	// whitespace separated two kept tokens, neither a combinator/comma, outside [...]
	toks := vnLexAll(src)
	type exp struct {
		tt   TokenType
		data []byte
	}
	var want []exp
	sawWS := false
	inAttr := false
	for _, t := range toks {
		d := src[t.start:t.end]
		if t.tt == LeftBraceToken {
			break
		}
		if t.tt == WhitespaceToken {
			sawWS = true
			continue
		}
		if t.tt == CommentToken {
			continue
		}
		punct := len(d) == 1 && (d[0] == ',' || d[0] == '>' || d[0] == '+' || d[0] == '~')
		if sawWS && len(want) > 0 && !punct && !inAttr {
			prev := want[len(want)-1].data
			prevPunct := len(prev) == 1 && (prev[0] == ',' || prev[0] == '>' || prev[0] == '+' || prev[0] == '~')
			if !prevPunct {
				want = append(want, exp{WhitespaceToken, []byte(" ")})
			}
		}
		sawWS = false
		if t.tt == LeftBracketToken {
			inAttr = true
		} else if t.tt == RightBracketToken {
			inAttr = false
		}
		want = append(want, exp{t.tt, d})
	}
	p := NewParser(parse.NewInputBytes(append(make([]byte, 0, len(src)+1), src...)), false)
	gt, _, _ := p.Next()
	vAssert(gt == BeginRulesetGrammar, "selector-not-a-ruleset")
	vals := p.Values()
	vAssert(len(vals) == len(want), "selector-values-count")
	for i := range want {
		if i < len(vals) {
			vAssert(vals[i].TokenType == want[i].tt && string(vals[i].Data) == string(want[i].data), "selector-values-differ")
		}
	}
	vReach("selector")
}

var vnAtRules = []struct {
	name string
	kind int // 1 rule list, 2 declaration list, 0 unknown
}{{"media", 1}, {"supports", 1}, {"document", 1}, {"keyframes", 1}, {"layer", 1}, {"font-face", 2}, {"page", 2}, {"foo", 0}}

// VerifAtRuleKinds: an at-rule whose name is spelled in arbitrary ASCII case (name bytes are
// solver variables) with a block: the block is parsed as the rule list / declaration list the
// at-rule kind prescribes, and the reported name is lower case.
func VerifAtRuleKinds() {
	ar := vnAtRules[vRange("rule", 0, len(vnAtRules)-1)]
	name := vBytes("name", len(ar.name))
	for i := range name {
		c := ar.name[i]
		if c >= 'a' && c <= 'z' {
			nc := name[i]
			vAssume(nc == c || nc == c-32)
		} else {
			vAssume(name[i] == c)
		}
	}
	src := append([]byte("@"), name...)
	if vRange("vendor", 0, 1) == 1 {
		src = append([]byte("@-o-"), name...)
	}
	var want []GrammarType
	switch ar.kind {
	case 1:
		src = append(src, " x{a{b:c}}d{e:f}"...)
		want = []GrammarType{BeginAtRuleGrammar, BeginRulesetGrammar, DeclarationGrammar, EndRulesetGrammar, EndAtRuleGrammar, BeginRulesetGrammar, DeclarationGrammar, EndRulesetGrammar, ErrorGrammar}
	case 2:
		src = append(src, "{b:c}d{e:f}"...)
		want = []GrammarType{BeginAtRuleGrammar, DeclarationGrammar, EndAtRuleGrammar, BeginRulesetGrammar, DeclarationGrammar, EndRulesetGrammar, ErrorGrammar}
	default:
		src = append(src, " x{b}d{e:f}"...)
		want = []GrammarType{BeginAtRuleGrammar, TokenGrammar, EndAtRuleGrammar, BeginRulesetGrammar, DeclarationGrammar, EndRulesetGrammar, ErrorGrammar}
	}
	p := NewParser(parse.NewInputBytes(append(make([]byte, 0, len(src)+1), src...)), false)
	for i, w := range want {
		gt, _, data := p.Next()
		vAssert(gt == w, "at-rule-grammar-sequence")
		if i == 0 {
			for _, c := range data {
				vAssert(c < 'A' || c > 'Z', "at-rule-name-not-lowercase")
			}
		}
	}
	vAssert(!p.HasParseError(), "at-rule-parse-error")
	vReach("atrule")
}
