//go:build verif

package css

import (
	"io"

	"github.com/tdewolff/parse/v2"
)

type vnTok struct {
	tt         TokenType
	start, end int
}

func vnLexAll(b []byte) []vnTok {
	n := len(b)
	z := parse.NewInputBytes(append(make([]byte, 0, n+1), b...))
	l := NewLexer(z)
	var out []vnTok
	pos := 0
	for i := 0; i < n+1; i++ {
		tt, data := l.Next()
		if tt == ErrorToken {
			break
		}
		out = append(out, vnTok{tt, pos, pos + len(data)})
		pos += len(data)
	}
	return out
}

func vnLowerEq(a, b []byte) bool {
	if len(a) != len(b) {
		return false
	}
	for i := range a {
		x, y := a[i], b[i]
		if x >= 'A' && x <= 'Z' {
			x += 'a' - 'A'
		}
		if y >= 'A' && y <= 'Z' {
			y += 'a' - 'A'
		}
		if x != y {
			return false
		}
	}
	return true
}

const (
	vnP01 = 1
	vnP08 = 2
)

// vnParseW drives css.Parser (stylesheet or inline) over every byte string of length 0..N.
func vnParseW(mode int) {
	n := vRange("n", 0, vParam("N", 2))
	b := vBytes("b", n)
	if vParam("alpha", 0) != 0 {
		// restricted alphabet run: a @ { } ( ) [ ] ; : , * - / space "
		for i := range b {
			c := b[i]
			vAssume(c == 'a' || c == '@' || c == '{' || c == '}' || c == '(' || c == ')' || c == '[' || c == ']' || c == ';' || c == ':' || c == ',' || c == '*' || c == '-' || c == '/' || c == ' ' || c == '"')
		}
	}
	inline := vRange("inline", 0, 1) == 1
	orig := append([]byte(nil), b...)
	z := parse.NewInputBytes(append(make([]byte, 0, n+1), b...))
	whole := z.Bytes()
	var T []vnTok
	if mode&vnP08 != 0 {
		T = vnLexAll(orig)
	}
	p := NewParser(z, inline)
	depth := 0
	var stack []GrammarType
	hadParseError := false
	ended := false
	k := 0 // provenance cursor into T
	for i := 0; i < 3*n+8; i++ {
		gt, tt, data := p.Next()
		vals := p.Values()
		vObserve("unit", int(gt), int(tt), data, len(vals))
		if mode&vnP01 != 0 {
			vAssert(p.Offset() <= n, "offset-past-end")
		}
		if gt == ErrorGrammar {
			if p.HasParseError() {
				hadParseError = true
				vReach("parse-error")
				_ = p.Err()
				continue
			}
			vAssert(p.Err() == io.EOF, "error-without-eof")
			vReach("eof")
			ended = true
			if mode&vnP08 != 0 && !hadParseError {
				vAssert(len(stack) == 0, "unclosed-at-eof")
			}
			if mode&vnP01 != 0 {
				gt2, _, _ := p.Next()
				vAssert(gt2 == ErrorGrammar && !p.HasParseError() && p.Err() == io.EOF, "eof-not-sticky")
			}
			break
		}
		if mode&vnP08 != 0 {
			switch gt {
			case BeginAtRuleGrammar, BeginRulesetGrammar:
				stack = append(stack, gt)
				depth++
			case EndAtRuleGrammar:
				depth--
				vAssert(depth >= 0, "negative-depth")
				if !hadParseError {
					vAssert(len(stack) > 0 && stack[len(stack)-1] == BeginAtRuleGrammar, "end-at-rule-mismatch")
				}
				if len(stack) > 0 {
					stack = stack[:len(stack)-1]
				}
			case EndRulesetGrammar:
				depth--
				vAssert(depth >= 0, "negative-depth")
				if !hadParseError {
					vAssert(len(stack) > 0 && stack[len(stack)-1] == BeginRulesetGrammar, "end-ruleset-mismatch")
				}
				if len(stack) > 0 {
					stack = stack[:len(stack)-1]
				}
			}
			// provenance: every token reported through Values() is a lexer token of the input, in source order
			if gt != AtRuleGrammar && gt != BeginAtRuleGrammar && gt != BeginRulesetGrammar && gt != DeclarationGrammar && gt != QualifiedRuleGrammar {
				vals = nil // Values() is only defined for these units
			}
			for _, v := range vals {
				if v.TokenType == WhitespaceToken && vOffsetIn(v.Data, wsBytes) == 0 && len(v.Data) == 1 {
					continue // synthetic single space
				}
				if v.TokenType == CustomPropertyValueToken {
					continue // checked below
				}
				off := vOffsetIn(v.Data, whole)
				if off < 0 || len(v.Data) == 0 {
					// copies: IE hack "*"+ident; must still equal consecutive lexer tokens
					vReach("values-copy")
					continue
				}
				found := false
				for k < len(T) {
					t := T[k]
					k++
					if t.start == off && t.end == off+len(v.Data) && t.tt == v.TokenType {
						found = true
						break
					}
				}
				vAssert(found, "values-token-not-in-source-order")
			}
			if cv := p.Values(); gt == CustomPropertyGrammar && len(cv) == 1 {
				// custom property value is exact source text: a contiguous span of the input
				v := cv[0].Data
				okSpan := false
				for s := 0; s+len(v) <= n; s++ {
					if string(orig[s:s+len(v)]) == string(v) {
						okSpan = true
						break
					}
				}
				vAssert(okSpan, "custom-property-value-not-source-text")
				vReach("custom-property")
			}
		}
	}
	vAssert(ended, "no-termination")
}

func VerifParseW01() { vnParseW(vnP01) }
func VerifParseW08() { vnParseW(vnP08) }
