//go:build verif

package css

import (
	"bytes"
	"io"

	"github.com/tdewolff/parse/v2"
)

// Constructive stylesheets for C08: the sheet is assembled from well-formed rules with symbolic
// holes (whitespace / comments at every gap, letter case of property and at-rule names, value
// separators, trailing semicolon); the expected grammar stream (unit type, lower-cased name,
// Values() token by token) is known by construction.

type vnUnit struct {
	gt   GrammarType
	data string // expected data ("" = not compared)
	vals []string
	cmp  bool // compare Values()
}

// vnGap: optional whitespace and/or comment between two tokens; reports whether it contains
// whitespace (a comment alone separates tokens in a declaration like whitespace does)
func vnGap(tag string, src []byte, max int) ([]byte, bool, bool) {
	k := vRange(tag, 0, max)
	switch k {
	case 1:
		c := vByte(tag + "c")
		if vParam("WS5", 0) != 0 {
			vAssume(c == ' ' || c == '\t' || c == '\n' || c == '\r' || c == '\f')
		} else {
			vAssume(c == ' ' || c == '\n')
		}
		return append(src, c), true, false
	case 2:
		return append(src, "/*c*/"...), false, true
	case 3:
		return append(src, " /*c*/ "...), true, true
	}
	return src, false, false
}

func vnCasedName(tag, s string) []byte {
	b := vBytes(tag, len(s))
	for i := range b {
		c, lc := b[i], s[i]
		if lc >= 'a' && lc <= 'z' && (i == 0 || (i == len(s)-1 && s[0] == '@')) {
			vAssume(c == lc || c == lc-32)
		} else {
			vAssume(c == lc)
		}
	}
	return b
}

var vnValAtoms = []string{"red", "1px", "#fff", "'s'", "50%"}

var vnFullUsed bool

// vnDecl appends  gap name gap ':' gap values gap  and the expected Declaration unit.
// Values:  V1 (SEP V2)?  with SEP from whitespace, comment, ',', '/', '!' each with optional
// surrounding whitespace: a whitespace token is expected only for a pure whitespace/comment gap.
func vnDecl(id string, src []byte, exp []vnUnit, gapMax int) ([]byte, []vnUnit) {
	if vnFullUsed {
		// only one declaration per sheet is explored with all its holes; the others are fixed
		return append(src, "x:1px"...), append(exp, vnUnit{DeclarationGrammar, "x", []string{"1px"}, true})
	}
	vnFullUsed = true
	name := []string{"color", "margin-top"}[vRange(id+"p", 0, 1)]
	src = append(src, vnCasedName(id+"n", name)...)
	src, _, _ = vnGap(id+"g1", src, gapMax)
	src = append(src, ':')
	src, _, _ = vnGap(id+"g2", src, gapMax)
	var vals []string
	nv := vRange(id+"nv", 0, vParam("NV", 2))
	for i := 0; i < nv; i++ {
		v := vnValAtoms[vRange(id+"v"+string(rune('0'+i)), 0, vParam("ATOMS", 2)-1)]
		if i > 0 {
			sep := vRange(id+"sep"+string(rune('0'+i)), 0, 3)
			var ws1, cm1, ws2, cm2 bool
			src, ws1, cm1 = vnGap(id+"s1"+string(rune('0'+i)), src, gapMax)
			switch sep {
			case 0: // whitespace / comment only; must separate the two values
				vAssume(ws1 || cm1)
				vals = append(vals, " ")
			case 1, 2, 3:
				p := []string{"", ",", "/", "!"}[sep]
				src = append(src, p...)
				src, ws2, cm2 = vnGap(id+"s2"+string(rune('0'+i)), src, gapMax)
				vals = append(vals, p)
			}
			_, _ = ws2, cm2
		}
		src = append(src, v...)
		vals = append(vals, v)
	}
	src, _, _ = vnGap(id+"g3", src, gapMax)
	return src, append(exp, vnUnit{DeclarationGrammar, name, vals, true})
}

func vnRuleset(id string, src []byte, exp []vnUnit, gapMax int) ([]byte, []vnUnit) {
	sel := vRange(id+"sel", 0, 3)
	switch sel {
	case 0:
		src = append(src, "a"...)
		exp = append(exp, vnUnit{BeginRulesetGrammar, "", []string{"a"}, true})
	case 1:
		src = append(src, ".b"...)
		exp = append(exp, vnUnit{BeginRulesetGrammar, "", []string{".", "b"}, true})
	case 2:
		src = append(src, "a b"...)
		exp = append(exp, vnUnit{BeginRulesetGrammar, "", []string{"a", " ", "b"}, true})
	case 3:
		src = append(src, "a , #c"...)
		exp = append(exp, vnUnit{BeginRulesetGrammar, "", []string{"a", ",", "#c"}, true})
	}
	src, _, _ = vnGap(id+"b0", src, gapMax)
	src = append(src, '{')
	nd := vRange(id+"nd", 0, vParam("D", 2))
	for i := 0; i < nd; i++ {
		did := id + "d" + string(rune('0'+i))
		if vParam("CUSTOM", 1) != 0 && vBool(did+"custom") {
			// custom property: the value is the exact source text up to ';' or '}'
			raw := []string{" ", "  (0;) ", "{a:b}", " x/**/y"}[vRange(did+"raw", 0, 3)]
			src = append(src, "--V:"...)
			src = append(src, raw...)
			exp = append(exp, vnUnit{CustomPropertyGrammar, "--V", []string{raw}, true})
		} else {
			src, exp = vnDecl(did, src, exp, 0)
		}
		if i < nd-1 || vBool(id+"semi") {
			src = append(src, ';')
			src, _, _ = vnGap(did+"g4", src, gapMax)
		}
	}
	src = append(src, '}')
	return src, append(exp, vnUnit{EndRulesetGrammar, "", nil, false})
}

func vnCheckSheet(src []byte, exp []vnUnit, inline bool) {
	p := NewParser(parse.NewInputBytes(append(make([]byte, 0, len(src)+1), src...)), inline)
	for _, e := range exp {
		gt, _, data := p.Next()
		vAssert(gt == e.gt, "sheet-unit-type")
		vAssert(!p.HasParseError(), "sheet-parse-error-on-well-formed-input")
		if e.data != "" {
			vAssert(string(data) == e.data, "sheet-unit-name")
		}
		if e.cmp {
			vals := p.Values()
			vAssert(len(vals) == len(e.vals), "sheet-values-count")
			for i := range e.vals {
				if i < len(vals) {
					vAssert(string(vals[i].Data) == e.vals[i], "sheet-values-differ")
					if e.vals[i] == " " && e.gt != CustomPropertyGrammar {
						vAssert(vals[i].TokenType == WhitespaceToken, "sheet-values-differ")
					}
				}
			}
		}
	}
	gt, _, _ := p.Next()
	vAssert(gt == ErrorGrammar && p.Err() == io.EOF, "sheet-end")
	gt, _, _ = p.Next()
	vAssert(gt == ErrorGrammar && p.Err() == io.EOF, "sheet-end-repeats")
}

// VerifSheet: K top-level items chosen by the solver.
func VerifSheet() {
	vnFullUsed = false
	k := vParam("K", 1)
	gapMax := vParam("GAP", 1)
	var src []byte
	var exp []vnUnit
	for i := 0; i < k; i++ {
		id := string(rune('A' + i))
		topMax := gapMax
		if topMax > 1 {
			topMax = 1 // whitespace only: a comment at the top level is a unit of its own (kind 4)
		}
		src, _, _ = vnGap(id+"top", src, topMax)
		switch vRange(id+"kind", 0, 5) {
		case 0:
			src, exp = vnRuleset(id, src, exp, gapMax)
		case 1: // at-rule statement
			src = append(src, vnCasedName(id+"at", "@import")...)
			src = append(src, " 'u'"...)
			src, _, _ = vnGap(id+"a1", src, gapMax)
			src = append(src, ';')
			exp = append(exp, vnUnit{AtRuleGrammar, "@import", []string{" ", "'u'"}, true})
		case 2: // at-rule with a rule list
			src = append(src, vnCasedName(id+"at", "@media")...)
			src = append(src, " print"...)
			src, _, _ = vnGap(id+"a1", src, gapMax)
			src = append(src, '{')
			exp = append(exp, vnUnit{BeginAtRuleGrammar, "@media", []string{" ", "print"}, true})
			src, _, _ = vnGap(id+"a2", src, gapMax)
			if vBool(id + "inner") {
				src = append(src, "a{x:1px}"...)
				exp = append(exp, vnUnit{BeginRulesetGrammar, "", []string{"a"}, true}, vnUnit{DeclarationGrammar, "x", []string{"1px"}, true}, vnUnit{EndRulesetGrammar, "", nil, false})
			}
			src, _, _ = vnGap(id+"a3", src, gapMax)
			src = append(src, '}')
			exp = append(exp, vnUnit{EndAtRuleGrammar, "", nil, false})
		case 3: // at-rule with a declaration list
			src = append(src, vnCasedName(id+"at", "@font-face")...)
			src, _, _ = vnGap(id+"a1", src, gapMax)
			src = append(src, '{')
			exp = append(exp, vnUnit{BeginAtRuleGrammar, "@font-face", nil, true})
			src = append(src, "x:1px"...)
			exp = append(exp, vnUnit{DeclarationGrammar, "x", []string{"1px"}, true})
			src = append(src, '}')
			exp = append(exp, vnUnit{EndAtRuleGrammar, "", nil, false})
		case 4: // top-level comment
			src = append(src, "/*k*/"...)
			exp = append(exp, vnUnit{CommentGrammar, "/*k*/", nil, false})
		case 5: // CDO / CDC
			if vBool(id + "cdc") {
				src = append(src, "-->"...)
				exp = append(exp, vnUnit{TokenGrammar, "-->", nil, false})
			} else {
				src = append(src, "<!--"...)
				exp = append(exp, vnUnit{TokenGrammar, "<!--", nil, false})
			}
		}
	}
	// a fixed rule after the derived items: a missing or misplaced End unit shows in what follows
	src = append(src, "z{}"...)
	exp = append(exp, vnUnit{BeginRulesetGrammar, "", []string{"z"}, true}, vnUnit{EndRulesetGrammar, "", nil, false})
	vnCheckSheet(src, exp, false)
	vReach("sheet")
}

// VerifInlineDecls: an inline declaration list (style attribute).
func VerifInlineDecls() {
	vnFullUsed = false
	gapMax := vParam("GAP", 3)
	var src []byte
	var exp []vnUnit
	nd := vRange("nd", 1, vParam("D", 2))
	for i := 0; i < nd; i++ {
		src, exp = vnDecl("d"+string(rune('0'+i)), src, exp, gapMax)
		if i < nd-1 || vBool("semi") {
			src = append(src, ';')
		}
	}
	vnCheckSheet(src, exp, true)
	vReach("inline")
}

var vnUnknownPieces = []string{"a{b:c}", "a{b:calc(1)}", "f(1)", "[x]", "(y)", "u{v{w:rgb(0,0,0)}}", " ", "k", ";", "p{q:url(r)}", "/*c*/"}

// VerifUnknownAtRule: an at-rule the parser does not know keeps its block as a token stream:
// BeginAtRule, then every lexer token of the block content in source order (whitespace and
// comments included), EndAtRule at the brace that closes the block - however functions,
// parentheses, brackets and braces nest inside - and the rules after it are parsed normally.
func VerifUnknownAtRule() {
	name := []string{"@container", "@property", "@-x-y"}[vRange("name", 0, 2)]
	n := vRange("n", 0, vParam("N", 3))
	content := ""
	for i := 0; i < n; i++ {
		content += vnUnknownPieces[vRange("p"+string(rune('0'+i)), 0, len(vnUnknownPieces)-1)]
	}
	src := []byte(name + " z{" + content + "}b{x:y}")
	p := NewParser(parse.NewInputBytes(append(make([]byte, 0, len(src)+1), src...)), false)
	gt, _, data := p.Next()
	vAssert(gt == BeginAtRuleGrammar && string(data) == name, "unknown-atrule-begin")
	toks := vnLexAll([]byte(content))
	first := true
	for _, t := range toks {
		if t.tt == CommentToken {
			continue // comments inside the block are dropped by the token reader
		}
		if first && t.tt == WhitespaceToken {
			continue // whitespace (and comments) before the first token of the block are not reported
		}
		first = false
		gt, tt, data := p.Next()
		vAssert(gt == TokenGrammar, "unknown-atrule-content-not-a-token-unit")
		vAssert(tt == t.tt && string(data) == content[t.start:t.end], "unknown-atrule-token-differs")
	}
	gt, _, _ = p.Next()
	vAssert(gt == EndAtRuleGrammar, "unknown-atrule-end-misplaced")
	gt, _, _ = p.Next()
	vAssert(gt == BeginRulesetGrammar, "rule-after-unknown-atrule-lost")
	gt, _, data = p.Next()
	vAssert(gt == DeclarationGrammar && string(data) == "x", "rule-after-unknown-atrule-lost")
	gt, _, _ = p.Next()
	vAssert(gt == EndRulesetGrammar, "rule-after-unknown-atrule-lost")
	gt, _, _ = p.Next()
	vAssert(gt == ErrorGrammar && p.Err() == io.EOF && !p.HasParseError(), "unknown-atrule-sheet-end")
	vReach("unknown")
}

// VerifErrContext (C15): the *parse.Error of the CSS parser carries the context Position computes
// on the ORIGINAL text for the reported line and column: parsing must not have rewritten the
// source line (property and at-rule names are lower-cased in copies, not in place).
func VerifErrContext() {
	name := vnCasedName("n", []string{"color", "margin-top"}[vRange("p", 0, 1)])
	at := vnCasedName("at", "@media")
	var src []byte
	switch vRange("shape", 0, 2) {
	case 0:
		src = vnCat([]byte("a{"), name, []byte(":red;b c;d:e}"))
	case 1:
		src = vnCat(at, []byte(" x{a{"), name, []byte(":red;b c}}"))
	case 2:
		src = vnCat(name, []byte(":red;b c")) // inline list
	}
	orig := append([]byte(nil), src...)
	inline := len(src) > 0 && src[0] != 'a' && src[0] != '@' && src[0] != 'A'
	p := NewParser(parse.NewInputBytes(append(make([]byte, 0, len(src)+1), src...)), inline)
	found := false
	for i := 0; i < 20; i++ {
		gt, _, _ := p.Next()
		if gt == ErrorGrammar {
			if !p.HasParseError() {
				break
			}
			perr, ok := p.Err().(*parse.Error)
			vAssert(ok, "css-error-not-a-parse-error")
			if ok {
				vAssert(perr.Line == 1 && perr.Column >= 1 && perr.Column <= len(orig)+1, "css-error-outside-input")
				_, _, ctx := parse.Position(bytes.NewBuffer(append([]byte(nil), orig...)), perr.Column-1)
				vAssert(perr.Context == ctx, "css-error-context-is-not-the-source-line")
				found = true
			}
		}
	}
	vAssert(found, "declaration-without-colon-not-reported")
	vReach("errcontext")
}

func vnCat(parts ...[]byte) []byte {
	var out []byte
	for _, p := range parts {
		out = append(out, p...)
	}
	return out
}
