//go:build verif

package css

import "github.com/tdewolff/parse/v2"

// VerifInterleave: two lexer instances on private data stepped in an order chosen by
// solver schedule bits observe exactly what they observe when run alone.
func VerifInterleave() {
	n1 := vRange("n1", 0, vParam("N", 2))
	n2 := vRange("n2", 0, vParam("N2", vParam("N", 2)))
	b1, b2 := vBytes("b1", n1), vBytes("b2", n2)
	l1 := NewLexer(parse.NewInputBytes(append(make([]byte, 0, n1+1), b1...)))
	l2 := NewLexer(parse.NewInputBytes(append(make([]byte, 0, n2+1), b2...)))
	s1 := NewLexer(parse.NewInputBytes(append(make([]byte, 0, n1+1), b1...)))
	s2 := NewLexer(parse.NewInputBytes(append(make([]byte, 0, n2+1), b2...)))
	for step := 0; step < vParam("STEPS", 4); step++ {
		if vRange("sched", 0, 1) == 0 {
			tt, d := l1.Next()
			st, sd := s1.Next()
			vAssert(tt == st && string(d) == string(sd), "instance-1-disturbed")
		} else {
			tt, d := l2.Next()
			st, sd := s2.Next()
			vAssert(tt == st && string(d) == string(sd), "instance-2-disturbed")
		}
	}
	vReach("interleave")
}
