//go:build verif

package css

// VerifHashLemma justifies the ToHash summary used by the other harnesses:
// for every byte string s, ToHash(s) is 0 or a table entry whose text equals s
// (the FNV multiply is abstracted as an uninterpreted function, which is sound
// for this direction), and every table entry maps to itself (concrete runs).
func VerifHashLemma() {
	n := vRange("n", 0, _Hash_maxLen+1)
	s := vBytes("s", n)
	h := ToHash(s)
	if h != 0 {
		vReach("hit")
		isEntry := false
		for _, e := range _Hash_table {
			if e != 0 && e == h {
				isEntry = true
			}
		}
		vAssert(isEntry, "hash-not-a-table-entry")
		vAssert(string(h.Bytes()) == string(s), "hash-text-differs")
	} else {
		vReach("miss")
	}
}

// VerifHashEntries: every declared constant maps to itself and Bytes() never panics.
func VerifHashEntries() {
	for _, e := range _Hash_table {
		if e != 0 {
			vAssert(ToHash(e.Bytes()) == e, "entry-does-not-map-to-itself")
			vReach("entry")
		}
	}
	// every declared constant maps to itself and has its documented text
	decl := []Hash{Document, Font_Face, Keyframes, Layer, Media, Page, Supports}
	text := []string{"document", "font-face", "keyframes", "layer", "media", "page", "supports"}
	for i, c := range decl {
		vAssert(string(c.Bytes()) == text[i], "constant-text")
		vAssert(ToHash([]byte(text[i])) == c, "constant-does-not-map-to-itself")
	}
	h := Hash(vUint32("h"))
	b := h.Bytes()
	vAssert(len(b) <= len(_Hash_text), "bytes-length")
}
