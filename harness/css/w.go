//go:build verif

package css

import (
	"io"

	"github.com/tdewolff/parse/v2"
)

const (
	vnC01 = 1
	vnC02 = 2
	vnRelex = 8
)

// vnLexW drives the CSS lexer over every byte string of length 0..N.
func vnLexW(mode int) {
	n := vRange("n", 0, vParam("N", 2))
	b := vBytes("b", n)
	orig := append([]byte(nil), b...)
	z := parse.NewInputBytes(append(make([]byte, 0, n+1), b...))
	whole := z.Bytes()
	l := NewLexer(z)
	prevEnd := 0
	ended := false
	policy := 0
	if mode&vnC01 != 0 {
		policy = vRange("policy", 0, 1)
	}
	for i := 0; i < 2*n+4; i++ {
		tt, data := l.Next()
		vObserve("tok", int(tt), data)
		if tt == ErrorToken {
			ended = true
			vAssert(l.Err() == io.EOF, "error-without-eof")
			vAssert(len(data) == 0, "error-with-data")
			if mode&vnC02 != 0 {
				vAssert(prevEnd == n && z.Offset() == n, "eof-before-end")
			}
			vReach("eof")
			if policy == 1 {
				tt2, d2 := l.Next()
				vAssert(tt2 == ErrorToken && len(d2) == 0 && l.Err() == io.EOF, "not-sticky")
			}
			break
		}
		off := vOffsetIn(data, whole)
		if mode&vnC01 != 0 {
			vAssert(off >= 0 && off+len(data) <= n, "token-outside-input")
			vAssert(z.Offset() <= n, "offset-past-end")
		}
		if mode&vnC02 != 0 {
			vAssert(len(data) > 0, "empty-token")
			vAssert(off == prevEnd, "token-gap-or-overlap")
			vAssert(off+len(data) == z.Offset(), "token-not-ending-at-offset")
			vAssert(cap(data) == len(data), "token-cap")
			vAssert(string(data) == string(orig[off:off+len(data)]), "token-bytes-differ")
			prevEnd = off + len(data)
		}
		if mode&vnRelex != 0 && len(data) > 0 {
			l2 := NewLexer(parse.NewInputBytes(append(make([]byte, 0, len(data)+1), data...)))
			tt2, d2 := l2.Next()
			vAssert(tt2 == tt && string(d2) == string(data), "relex-differs")
			tt3, _ := l2.Next()
			vAssert(tt3 == ErrorToken, "relex-trailing")
			vReach("relex")
		}
	}
	vAssert(ended, "no-termination")
	if mode&vnC02 != 0 {
		vAssert(string(whole) == string(orig), "input-altered")
	}
}

func VerifLexW01()    { vnLexW(vnC01) }
func VerifLexW02()    { vnLexW(vnC02) }
func VerifLexRelex()  { vnLexW(vnRelex) }
