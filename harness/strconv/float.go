//go:build verif

package strconv

import (
	"math"
	gostrconv "strconv"
)

// refLiteral parses a minified decimal literal  -?digits?(.digits)?(e-?digits)?  exactly:
// value = mant * 10^exp with mant an integer; ok=false if it is not well-formed.
func refLiteral(b []byte) (neg bool, mant int64, exp int, ok bool) {
	i := 0
	if i < len(b) && b[i] == '-' {
		neg = true
		i++
	}
	digits := 0
	for i < len(b) && b[i] >= '0' && b[i] <= '9' {
		mant = mant*10 + int64(b[i]-'0')
		i++
		digits++
	}
	if i < len(b) && b[i] == '.' {
		i++
		for i < len(b) && b[i] >= '0' && b[i] <= '9' {
			mant = mant*10 + int64(b[i]-'0')
			exp--
			i++
			digits++
		}
	}
	if digits == 0 {
		return neg, 0, 0, false
	}
	if i < len(b) && b[i] == 'e' {
		i++
		eneg := false
		if i < len(b) && b[i] == '-' {
			eneg = true
			i++
		}
		e, ed := 0, 0
		for i < len(b) && b[i] >= '0' && b[i] <= '9' {
			e = e*10 + int(b[i]-'0')
			i++
			ed++
		}
		if ed == 0 {
			return neg, 0, 0, false
		}
		if eneg {
			e = -e
		}
		exp += e
	}
	return neg, mant, exp, i == len(b)
}

// VerifAppendFloatInt: AppendFloat on integer-valued floats m (1 <= |m| < LIM) with prec+1
// significant digits: the output is a well-formed literal with the correct sign whose exact
// value is m truncated to prec+1 significant digits; destination prefix preserved.
func VerifAppendFloatInt() {
	lim := int64(vParam("LIM", 100))
	var m int64
	if vParam("CONC", 0) != 0 {
		// concrete sweep over m (the FP theory does not get through prec >= 2 within the budget)
		m = int64(vRange("m", int(-lim+1), int(lim-1)))
		if m == 0 {
			return
		}
	} else {
		m = vInt64("m")
		vAssume(m != 0 && -lim < m && m < lim)
	}
	prec := vRange("prec", vParam("PMIN", 0), vParam("PMAX", 1))
	p0 := vByte("p0")
	out := AppendFloat([]byte{p0}, float64(m), prec)
	vObserve("out", out)
	vAssert(len(out) >= 2 && out[0] == p0, "prefix-not-preserved")
	neg, mant, exp, ok := refLiteral(out[1:])
	vAssert(ok, "appendfloat-malformed-literal")
	vAssert(neg == (m < 0), "appendfloat-sign")
	// expected: |m| truncated to prec+1 significant digits
	u := m
	if u < 0 {
		u = -u
	}
	d := LenInt(u)
	want := u
	if d > prec+1 {
		p := int64pow10[d-prec-1]
		want = u / p * p
	}
	// compare mant*10^exp with want exactly (exp in a small range)
	for exp > 0 {
		mant *= 10
		exp--
	}
	for exp < 0 {
		want *= 10
		exp++
	}
	vAssert(mant == want, "appendfloat-value")
	vReach("appendfloat")
}

// VerifParseFloatValue: for every short decimal literal the value ParseFloat returns is the
// float64 the standard library returns for the consumed prefix (the standard library's
// strconv.ParseFloat is interpreted from its source next to the library's; for these lengths
// both are in the exactly-rounded regime, so equality, not a tolerance, is asserted). ParseDecimal
// (no exponent) is compared the same way.
func VerifParseFloatValue() {
	n := vRange("n", 1, vParam("N", 4))
	b := vBytes("b", n)
	for i := range b {
		c := b[i]
		vAssume(c == '-' || c == '+' || c == '.' || c == '0' || c == '1' || c == '5' || c == '9' || c == 'e' || c == 'E')
	}
	if vRange("fn", 0, 1) == 0 {
		got, ln := ParseFloat(b)
		if ln == 0 {
			return
		}
		want, err := gostrconv.ParseFloat(string(b[:ln]), 64)
		if err != nil {
			return
		}
		vAssert(got == want, "parsefloat-value-differs-from-standard-library")
		vAssert(math.Signbit(got) == math.Signbit(want), "parsefloat-sign-of-zero")
		vReach("float")
	} else {
		for i := range b {
			vAssume(b[i] != 'e' && b[i] != 'E' && b[i] != '+')
		}
		got, ln := ParseDecimal(b)
		if ln == 0 {
			return
		}
		want, err := gostrconv.ParseFloat(string(b[:ln]), 64)
		if err != nil {
			return
		}
		vAssert(got == want, "parsedecimal-value-differs-from-standard-library")
		vReach("decimal")
	}
}

// VerifAppendFloatGrid: concrete sweep (enumeration, no solver: the FP theory does not get through
// AppendFloat's scaling within the budget) over f = +-m * 10^e for 1 <= m < LIM and a set of decimal
// exponents that reach the extremes of the exponent estimate, with prec in PMIN..PMAX: the output
// is a well-formed literal with the sign of f that parses back to f within the requested digits.
func VerifAppendFloatGrid() {
	lim := vParam("LIM", 100)
	m := vRange("m", 1, lim-1)
	// decimal exponents: every one in -30..30 (all positions inside a binade), then the extremes
	var e int
	if ei := vRange("e", 0, 66); ei <= 60 {
		e = ei - 30
	} else {
		e = []int{-300, -60, 49, 100, 200, 300}[ei-61]
	}
	var prec int
	if vParam("PSET", 0) != 0 {
		prec = []int{3, 10, 17, 18}[vRange("prec", 0, 3)]
	} else {
		prec = vRange("prec", vParam("PMIN", 3), vParam("PMAX", 18))
	}
	f := float64(m) * math.Pow(10, float64(e))
	if vBool("neg") {
		f = -f
	}
	out := AppendFloat([]byte{'#'}, f, prec)
	vAssert(len(out) >= 2 && out[0] == '#', "prefix-not-preserved")
	neg, mant, exp, ok := refLiteral(out[1:])
	vAssert(ok, "appendfloat-malformed-literal")
	if !ok {
		return
	}
	vAssert(neg == (f < 0), "appendfloat-sign")
	got := float64(mant) * math.Pow(10, float64(exp))
	if neg {
		got = -got
	}
	// truncation to prec+1 significant digits loses less than one unit of the last kept digit
	rel := math.Abs(got-f) / math.Abs(f)
	digits := prec + 1
	if digits > 15 {
		digits = 15 // float64 arithmetic of this comparison itself
	}
	vAssert(rel <= 2*math.Pow(10, float64(1-digits)), "appendfloat-value-off")
	vReach("grid")
}

// VerifParseFloatHistory (C20): the value ParseFloat returns for a literal does not depend on the
// literals parsed before it in the same process (slow paths with large exponents first), and no
// package-level table is written (global write barrier).
func VerifParseFloatHistory() {
	big := []string{"1.5e300", "993349238352373e23", "1e-300", "0.00000000000000000000000000000000000001", "123456789012345678901234567890", "1e40"}
	probe := []string{"3e-23", "3e-26", "1.1e-40", "7e22", "5e-1", "2.5e23", "1e-22"}
	b := []byte(probe[vRange("probe", 0, len(probe)-1)])
	first, n1 := ParseFloat(b)
	k := vRange("k", 1, 2)
	for i := 0; i < k; i++ {
		a := []byte(big[vRange("big"+string(rune('0'+i)), 0, len(big)-1)])
		ParseFloat(a)
	}
	again, n2 := ParseFloat(b)
	vAssert(n1 == n2 && math.Float64bits(first) == math.Float64bits(again), "parsefloat-result-depends-on-history")
	vReach("history")
}
