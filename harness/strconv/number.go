//go:build verif

package strconv

import (
	"unicode/utf8"
)

var vnSyms = []rune{',', '.', 0xA0, 0x2009, 0x1F600}

// VerifNumberRoundTrip: AppendNumber followed by ParseNumber with the same symbols
// returns the original integer, decimal count and full length; the output contains
// nothing but digits, sign and the two symbols; destination prefix preserved.
func VerifNumberRoundTrip() {
	lim := int64(vParam("LIM", 10000))
	num := vInt64("num")
	vAssume(-lim < num && num < lim)
	dec := vRange("dec", 0, vParam("DEC", 2))
	gs := vRange("gs", 0, vParam("GS", 3))
	gi := vRange("gsym", 0, len(vnSyms)-1)
	di := vRange("dsym", 0, len(vnSyms)-1)
	vAssume(gi != di)
	groupSym, decSym := vnSyms[gi], vnSyms[di]
	p0 := vByte("p0")
	var dst []byte
	if vRange("cap", 0, 1) == 0 {
		dst = []byte{p0}
	} else {
		dst = append(make([]byte, 0, 64), p0)
	}
	out := AppendNumber(dst, num, dec, gs, groupSym, decSym)
	vObserve("out", out)
	vAssert(len(out) >= 2 && out[0] == p0, "prefix-not-preserved")
	body := out[1:]
	var gb, db [4]byte
	gn := utf8.EncodeRune(gb[:], groupSym)
	dn := utf8.EncodeRune(db[:], decSym)
	for i := 0; i < len(body); i++ {
		c := body[i]
		ok := c >= '0' && c <= '9' || c == '-'
		for j := 0; j < gn; j++ {
			ok = ok || c == gb[j]
		}
		for j := 0; j < dn; j++ {
			ok = ok || c == db[j]
		}
		vAssert(ok, "foreign-byte-in-output")
	}
	n2, d2, l2 := ParseNumber(body, groupSym, decSym)
	vAssert(l2 == len(body), "parse-length")
	vAssert(n2 == num, "parse-value")
	if dec > 0 {
		vAssert(d2 == dec, "parse-decimals")
	}
	vReach("roundtrip")
}
