//go:build verif

package strconv

import (
	gostrconv "strconv"
)

// ---- references ----

// refDigitsCmp compares the decimal digit string d (no leading zeros) with lim.
func refDigitsGreater(d []byte, lim string) bool {
	if len(d) != len(lim) {
		return len(d) > len(lim)
	}
	for i := range d {
		if d[i] != lim[i] {
			return d[i] > lim[i]
		}
	}
	return false
}

var refPow10 = [20]uint64{1, 10, 100, 1000, 10000, 100000, 1000000, 10000000, 100000000, 1000000000, 10000000000, 100000000000, 1000000000000, 10000000000000, 100000000000000, 1000000000000000, 10000000000000000, 100000000000000000, 1000000000000000000, 10000000000000000000}

// refDigitsValue: positional value (sum of digit * 10^k), only called when it fits.
func refDigitsValue(d []byte) uint64 {
	v := uint64(0)
	for i := range d {
		v += uint64(d[i]-'0') * refPow10[len(d)-1-i]
	}
	return v
}

func refStripZeros(d []byte) []byte {
	for len(d) > 1 && d[0] == '0' {
		d = d[1:]
	}
	return d
}

func refDigitRun(b []byte, i int) int {
	for i < len(b) && b[i] >= '0' && b[i] <= '9' {
		i++
	}
	return i
}

func vnInput(tag string) []byte {
	// optional concrete prefix (boundary sketches) followed by symbolic bytes
	pre := ""
	switch vParam("pre", 0) {
	case 1:
		pre = "1844674407370955161"
	case 2:
		pre = "922337203685477580"
	case 3:
		pre = "-922337203685477580"
	case 4:
		pre = "+922337203685477580"
	case 5:
		pre = "0000000000000000000001844674407370955161"
	}
	n := vRange("n", 0, vParam("N", 3))
	b := vBytes(tag, n)
	return append([]byte(pre), b...)
}

// VerifParseUint: longest digit prefix, exact value, (0,0) on overflow.
func VerifParseUint() {
	b := vnInput("b")
	v, n := ParseUint(b)
	end := refDigitRun(b, 0)
	if end == 0 {
		vAssert(v == 0 && n == 0, "no-digits")
		vReach("none")
		return
	}
	d := refStripZeros(b[:end])
	if refDigitsGreater(d, "18446744073709551615") {
		vAssert(v == 0 && n == 0, "overflow-not-reported")
		vReach("overflow")
		return
	}
	vAssert(n == end, "consumed-length")
	vAssert(v == refDigitsValue(d), "value")
	vReach("value")
}

// VerifParseInt: longest [+-]?digits prefix, exact value, (0,0) on overflow or without digits.
func VerifParseInt() {
	b := vnInput("b")
	v, n := ParseInt(b)
	i := 0
	neg := false
	if len(b) > 0 && (b[0] == '+' || b[0] == '-') {
		neg = b[0] == '-'
		i = 1
	}
	end := refDigitRun(b, i)
	if end == i {
		vAssert(v == 0 && n == 0, "no-digits")
		vReach("none")
		return
	}
	d := refStripZeros(b[i:end])
	lim := "9223372036854775807"
	if neg {
		lim = "9223372036854775808"
	}
	if refDigitsGreater(d, lim) {
		vAssert(v == 0 && n == 0, "overflow-not-reported")
		vReach("overflow")
		return
	}
	vAssert(n == end, "consumed-length")
	u := refDigitsValue(d)
	if neg {
		vAssert(uint64(v) == -u, "value-neg")
	} else {
		vAssert(uint64(v) == u, "value")
	}
	vReach("value")
}

// VerifLenInt: LenInt / LenUint equal the number of characters the standard library prints.
func VerifLenInt() {
	i := vInt64("i")
	got := LenInt(i)
	u := uint64(i)
	want := 0
	if i < 0 {
		u = -u
		want = 1
	}
	k := 1
	for k < 20 && u >= refPow10[k] {
		k++
	}
	want += k
	vAssert(got == want, "lenint")
	vAssert(LenUint(u) == k, "lenuint")
	vReach("len")
}

// VerifAppendInt: byte-identical to strconv.AppendInt, destination prefix preserved.
func VerifAppendInt() {
	lim := int64(vParam("LIM", 1000))
	num := vInt64("num")
	switch vRange("region", 0, vParam("R", 0)) {
	case 0:
		vAssume(-lim < num && num < lim)
	case 1: // near the extremes
		vAssume(num > 9223372036854775807-lim)
	case 2:
		vAssume(num < -9223372036854775807+lim)
	}
	p0, p1 := vByte("p0"), vByte("p1")
	var dst []byte
	if vRange("cap", 0, 1) == 0 {
		dst = []byte{p0, p1}
	} else {
		dst = append(make([]byte, 0, 40), p0, p1)
	}
	out := AppendInt(dst, num)
	want := gostrconv.AppendInt([]byte{p0, p1}, num, 10)
	vObserve("out", out)
	vAssert(string(out) == string(want), "appendint-differs")
	vReach("appendint")
}

// VerifPow10Tables: the package's power-of-ten tables hold exactly 10^i (every entry, concrete sweep
// like the ToHash table sweeps): AppendDecimal, ParseDecimal and ParseFloat index them directly.
func VerifPow10Tables() {
	p := int64(1)
	for i := range int64pow10 {
		vAssert(int64pow10[i] == p, "int64pow10-entry")
		p *= 10
	}
	vAssert(len(int64pow10) == 19, "int64pow10-length")
	f := 1.0
	for i := range float64pow10 {
		vAssert(float64pow10[i] == f, "float64pow10-entry")
		f *= 10 // exact up to 1e22
	}
	vAssert(len(float64pow10) == 23, "float64pow10-length")
	vReach("tables")
}
