//go:build verif

package strconv

import (
	"math"
	gostrconv "strconv"
)

// refFormatDecimal renders num / 10^dec without trailing zeros (num != 0, last digit non-zero when dec > 0).
func refFormatDecimal(num int64, dec int) []byte {
	var out []byte
	u := uint64(num)
	if num < 0 {
		out = append(out, '-')
		u = -u
	}
	digits := gostrconv.AppendUint(nil, u, 10)
	if dec == 0 {
		return append(out, digits...)
	}
	if len(digits) <= dec {
		out = append(out, '0', '.')
		for i := len(digits); i < dec; i++ {
			out = append(out, '0')
		}
		return append(out, digits...)
	}
	out = append(out, digits[:len(digits)-dec]...)
	out = append(out, '.')
	return append(out, digits[len(digits)-dec:]...)
}

// VerifAppendDecimal: the output is the decimal rendering of f rounded half away
// from zero to dec decimals, without trailing zeros, with the correct sign;
// nothing for NaN/Inf; destination prefix preserved.
func VerifAppendDecimal() {
	f := vFloat64("f")
	dec := vRange("dec", vParam("DECMIN", 0), vParam("DEC", 2))
	p0 := vByte("p0")
	var dst []byte
	if vRange("cap", 0, vParam("CAP", 1)) == 0 {
		dst = []byte{p0}
	} else {
		dst = append(make([]byte, 0, 64), p0)
	}
	if vRange("special", 0, 1) == 1 {
		vAssume(math.IsNaN(f) || math.IsInf(f, 0))
		out := AppendDecimal(dst, f, dec)
		vAssert(len(out) == 1 && out[0] == p0, "special-appends")
		vReach("special")
		return
	}
	lim := float64(vParam("LIM", 10)) / float64(vParam("LIMDIV", 1))
	vAssume(-lim < f && f < lim)
	out := AppendDecimal(dst, f, dec)
	vObserve("out", out)
	vAssert(len(out) >= 2 && out[0] == p0, "prefix-not-preserved")
	// reference: round half away from zero at dec decimals (same float operations), then format
	g := f * math.Pow10(dec)
	if 0.0 <= g {
		g += 0.5
	} else {
		g -= 0.5
	}
	num := int64(g)
	if num == 0 {
		vAssert(string(out[1:]) == "0", "zero")
		vReach("zero")
		return
	}
	d := dec
	for 0 < d && num%10 == 0 {
		num /= 10
		d--
	}
	want := refFormatDecimal(num, d)
	vAssert(string(out[1:]) == string(want), "appenddecimal-differs")
	vReach("value")
}
