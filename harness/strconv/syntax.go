//go:build verif

package strconv

func refD(b []byte, i int) bool { return i < len(b) && b[i] >= '0' && b[i] <= '9' }

// VerifParseDecimalSyntax: ParseDecimal consumes exactly the longest prefix
// -?digits*(.digits*)? (at most one dot) and (0,0) for a lone dot or no digits/dot at all;
// ParseFloat consumes the longest [+-]?(digits+(.digits*)?|.digits+)([eE][+-]?digits+)? prefix.
func VerifParseDecimalSyntax() {
	n := vRange("n", 0, vParam("N", 4))
	b := vBytes("b", n)
	for i := range b {
		c := b[i]
		vAssume(c == '-' || c == '+' || c == '.' || c == '0' || c == '7' || c == 'e' || c == 'x')
	}
	if vRange("fn", 0, 1) == 0 {
		_, got := ParseDecimal(b)
		i := 0
		if i < n && b[i] == '-' {
			i++
		}
		digits := 0
		for refD(b, i) {
			i++
			digits++
		}
		dot := false
		if i < n && b[i] == '.' {
			dot = true
			i++
			for refD(b, i) {
				i++
				digits++
			}
		}
		want := i
		if digits == 0 && dot && i == 1 {
			want = 0 // only a dot
		}
		if digits == 0 && !dot {
			// no number at all: the implementation reports the bytes it looked at ("-" gives 1)
			return
		}
		vAssert(got == want, "parsedecimal-consumed-length")
		vReach("decimal")
	} else {
		_, got := ParseFloat(b)
		i := 0
		if i < n && (b[i] == '+' || b[i] == '-') {
			i++
		}
		s := i
		for refD(b, i) {
			i++
		}
		intDigits := i - s
		fracDigits := 0
		if i < n && b[i] == '.' {
			j := i + 1
			for refD(b, j) {
				j++
				fracDigits++
			}
			if intDigits > 0 || fracDigits > 0 {
				i = j
			}
		}
		if intDigits == 0 && fracDigits == 0 {
			vAssert(got == 0, "parsefloat-no-digits")
			vReach("float-none")
			return
		}
		if i < n && (b[i] == 'e' || b[i] == 'E') {
			j := i + 1
			if j < n && (b[j] == '+' || b[j] == '-') {
				j++
			}
			if refD(b, j) {
				for refD(b, j) {
					j++
				}
				i = j
			}
		}
		vAssert(got == i, "parsefloat-consumed-length")
		vReach("float")
	}
}
