//go:build verif

package js

import (
	"github.com/tdewolff/parse/v2"
)

// reference operator table transcribed from ECMA-262 §13 (independent of js/tokentype.go)
type vnOp struct {
	text  string
	prec  int
	right bool
}

var vnBinOps = []vnOp{
	{"=", 2, true}, {"+=", 2, true}, {"-=", 2, true}, {"*=", 2, true}, {"/=", 2, true}, {"%=", 2, true}, {"**=", 2, true},
	{"<<=", 2, true}, {">>=", 2, true}, {">>>=", 2, true}, {"&=", 2, true}, {"^=", 2, true}, {"|=", 2, true}, {"&&=", 2, true}, {"||=", 2, true}, {"??=", 2, true},
	{"??", 4, false}, {"||", 5, false}, {"&&", 6, false}, {"|", 7, false}, {"^", 8, false}, {"&", 9, false},
	{"==", 10, false}, {"!=", 10, false}, {"===", 10, false}, {"!==", 10, false},
	{"<", 11, false}, {">", 11, false}, {"<=", 11, false}, {">=", 11, false}, {" in ", 11, false}, {" instanceof ", 11, false},
	{"<<", 12, false}, {">>", 12, false}, {">>>", 12, false},
	{"+", 13, false}, {"-", 13, false}, {"*", 14, false}, {"/", 14, false}, {"%", 14, false}, {"**", 15, true},
}

// vnOpHole returns an operator spelled by symbolic bytes (length <= HL) that the reference
// recognises as a binary operator, or one of the keyword operators.
func vnOpHole(tag string) (text []byte, op vnOp) {
	hl := vParam("HL", 2)
	if vRange(tag+"kw", 0, 2) > 0 {
		kw := vRange(tag+"which", 0, 1)
		op = vnBinOps[30+kw]
		return []byte(op.text), op
	}
	n := vRange(tag+"len", 1, hl)
	b := vBytes(tag, n)
	for _, o := range vnBinOps {
		if len(o.text) == n && o.text[0] != ' ' && string(b) == o.text {
			return b, o
		}
	}
	vAssume(false)
	return nil, vnOp{}
}

func vnTrim(s string) string {
	for len(s) > 0 && s[0] == ' ' {
		s = s[1:]
	}
	for len(s) > 0 && s[len(s)-1] == ' ' {
		s = s[:len(s)-1]
	}
	return s
}

func vnOpStr(o vnOp) string {
	t := vnTrim(o.text)
	if o.text[0] == ' ' {
		return " " + t + " "
	}
	return t
}

// VerifPrecedence: `a op1 b op2 c` for every pair of binary operators (operator bytes are
// symbolic): the tree is the one the precedence/associativity tables prescribe, and the
// forbidden combinations are rejected, under every Options value.
func VerifPrecedence() {
	t1, o1 := vnOpHole("p")
	t2, o2 := vnOpHole("q")
	src := append([]byte("a"), t1...)
	src = append(src, 'b')
	src = append(src, t2...)
	src = append(src, 'c')
	o := Options{WhileToFor: vRange("whileToFor", 0, 1) == 1, Inline: vRange("inline", 0, 1) == 1}
	ast, err := Parse(parse.NewInputBytes(append(make([]byte, 0, len(src)+1), src...)), o)
	assign1, assign2 := o1.prec == 2, o2.prec == 2
	mixes := func(a, b vnOp) bool {
		return a.text == "??" && (b.text == "||" || b.text == "&&") || b.text == "??" && (a.text == "||" || a.text == "&&")
	}
	var want string
	switch {
	case !assign1 && assign2:
		vAssert(err != nil, "assignment-to-binary-expression-accepted")
		vReach("reject-assign")
		return
	case !assign1 && !assign2 && mixes(o1, o2):
		vAssert(err != nil, "nullish-mixed-with-logical-accepted")
		vReach("reject-mix")
		return
	case assign1:
		// a = (b op2 c)
		want = "Stmt(a" + vnOpStr(o1) + "(b" + vnOpStr(o2) + "c))"
	case o1.prec > o2.prec || o1.prec == o2.prec && !o1.right:
		want = "Stmt((a" + vnOpStr(o1) + "b)" + vnOpStr(o2) + "c)"
	default:
		want = "Stmt(a" + vnOpStr(o1) + "(b" + vnOpStr(o2) + "c))"
	}
	vAssert(err == nil, "valid-expression-rejected")
	if err == nil {
		vAssert(ast.String() == want, "tree-differs-from-precedence-table")
		vReach("tree")
	}
}

// VerifUnaryExp: a unary operator directly before ** is rejected, an update expression is accepted.
func VerifUnaryExp() {
	pre := vBytes("pre", vRange("n", 1, 2))
	src := append(append([]byte(nil), pre...), "a**b"...)
	_, err := Parse(parse.NewInputBytes(append(make([]byte, 0, len(src)+1), src...)), Options{})
	s := string(pre)
	switch {
	case s == "-" || s == "+" || s == "!" || s == "~":
		vAssert(err != nil, "unary-before-exponent-accepted")
		vReach("unary")
	case s == "++" || s == "--":
		vAssert(err == nil, "update-before-exponent-rejected")
		vReach("update")
	}
}

// VerifASI: `a sep1 tok sep2 b` with tok in {++, --, +, -}: statements split exactly as the
// automatic-semicolon-insertion rules and the restricted productions prescribe.
func VerifASI() {
	sep := func(tag string) ([]byte, bool) {
		switch vRange(tag+"kind", 0, 3) {
		case 0:
			return nil, false
		case 1:
			c := vByte(tag)
			vAssume(c == ' ' || c == '\t' || c == '\n' || c == '\r')
			return []byte{c}, c == '\n' || c == '\r'
		case 2:
			return []byte("/**/"), false
		default:
			return []byte("/*\n*/"), true
		}
	}
	s1, lt1 := sep("s")
	s2, lt2 := sep("t")
	tok := vBytes("tok", vRange("toklen", 1, 2))
	ts := string(tok)
	vAssume(ts == "++" || ts == "--" || ts == "+" || ts == "-")
	src := append([]byte("a"), s1...)
	src = append(src, tok...)
	src = append(src, s2...)
	src = append(src, 'b')
	ast, err := Parse(parse.NewInputBytes(append(make([]byte, 0, len(src)+1), src...)), Options{})
	if len(ts) == 1 {
		vAssert(err == nil, "binary-across-newline-rejected")
		if err == nil {
			vAssert(ast.String() == "Stmt(a"+ts+"b)", "binary-across-newline-tree")
		}
		vReach("binary")
		return
	}
	switch {
	case lt1: // restricted production: a line terminator before ++ ends the statement
		vAssert(err == nil, "asi-prefix-rejected")
		if err == nil {
			vAssert(ast.String() == "Stmt(a) Stmt("+ts+"b)", "asi-prefix-tree")
		}
		vReach("prefix")
	case lt2:
		vAssert(err == nil, "asi-postfix-rejected")
		if err == nil {
			vAssert(ast.String() == "Stmt(a"+ts+") Stmt(b)", "asi-postfix-tree")
		}
		vReach("postfix")
	default:
		vAssert(err != nil, "missing-semicolon-accepted")
		vReach("no-asi")
	}
}

var vnBracketPrograms = []string{
	"if(a){b}else{c}",
	"for(a;b;c){d}",
	"while(a)b[c]",
	"function f(a,b){return[a,b]}",
	"x={a:[b],c(){d}}",
	"class A{b(){c}}",
	"a=(b,c)=>{d}",
	"let[a,{b}]=c",
	"switch(a){case b:c}",
	"try{a}catch(b){c}finally{d}",
	"new a(b)[c]",
	"do{a}while(b)",
}

func vnIsBracket(c byte) bool { return c == '(' || c == ')' || c == '[' || c == ']' || c == '{' || c == '}' }

// VerifBrackets: deleting one bracket of a well-formed program, or inserting one bracket
// byte anywhere, makes Parse return an error (never a tree), under every Options value.
func VerifBrackets() {
	prog := []byte(vnBracketPrograms[vRange("program", 0, len(vnBracketPrograms)-1)])
	o := Options{WhileToFor: vRange("whileToFor", 0, 1) == 1, Inline: vRange("inline", 0, 1) == 1}
	_, err0 := Parse(parse.NewInputBytes(append(make([]byte, 0, len(prog)+1), prog...)), o)
	vAssert(err0 == nil, "well-formed-program-rejected")
	pos := vRange("pos", 0, len(prog))
	var mut []byte
	if vRange("mutation", 0, 1) == 0 {
		vAssume(pos < len(prog) && vnIsBracket(prog[pos]))
		mut = append(append([]byte(nil), prog[:pos]...), prog[pos+1:]...)
		vReach("delete")
	} else {
		c := vByte("bracket")
		vAssume(vnIsBracket(c))
		mut = append(append(append([]byte(nil), prog[:pos]...), c), prog[pos:]...)
		vReach("insert")
	}
	_, err := Parse(parse.NewInputBytes(append(make([]byte, 0, len(mut)+1), mut...)), o)
	vAssert(err != nil, "unbalanced-program-accepted")
}
