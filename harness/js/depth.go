//go:build verif

package js

import (
	"github.com/tdewolff/parse/v2"
)

var vnDepthPrefixes = []string{"", "x=", "let ", "var ", "(", "function f(", "class A{[", "`${", "a=>", "for(", "[", "({a:", "let{a:", "x?.", "new ", "async(", "if(a)", "a?", "label:"}

func vnNested(prefix string, opener byte, k int) []byte {
	closer := map[byte]byte{'(': ')', '[': ']', '{': '}'}[opener]
	b := append([]byte(nil), prefix...)
	for i := 0; i < k; i++ {
		b = append(b, opener)
	}
	b = append(b, 'a')
	for i := 0; i < k; i++ {
		b = append(b, closer)
	}
	return b
}

// VerifDepth: with the nesting limits lowered to L, the call depth reached while parsing
// prefix + k openers does not grow with k beyond the limit (every recursive cycle is guarded).
// Natively (replay) the same input family is parsed with 3 million openers and the default limits:
// an unguarded cycle exhausts the stack.
func VerifDepth() {
	pi := vRange("prefix", 0, len(vnDepthPrefixes)-1)
	opener := vByte("opener")
	vAssume(opener == '(' || opener == '[' || opener == '{')
	prefix := vnDepthPrefixes[pi]
	if !vSymbolic() {
		big := vnNested(prefix, opener, 3000000)
		_, err := Parse(parse.NewInputBytes(big), Options{})
		vAssert(err != nil, "deep-nesting-accepted")
		return
	}
	L := vParam("L", 3)
	NestedStmtLimit, NestedExprLimit = L, L
	k1, k2 := L+3, vParam("K", 9)
	vDepthReset()
	_, _ = Parse(parse.NewInputBytes(vnNested(prefix, opener, k1)), Options{})
	d1 := vDepth()
	vDepthReset()
	_, _ = Parse(parse.NewInputBytes(vnNested(prefix, opener, k2)), Options{})
	d2 := vDepth()
	vAssert(d2 <= d1, "recursion-depth-not-bounded-by-nesting-limit")
	vReach("depth")
}

var vnDepthUnits = []string{"async(", "a=>", "a?", "a?b:", "!", "-", "typeof ", "new ", "a,", "a=", "a+", "a**", "`${", "{a:", "x={a:", "[", "(", "f(", "function(){", "x=function(){", "class{a(){", "if(a)", "while(a)", "for(;;)", "a:", "{", "x=>{", "do ", "try{", "if(a);else ", "with(a)", "a?.", "a.", "a[", "await ", "yield ", "...", "x=[", "let[", "let{a:", "var[a=", "(a=", "a=(", "a=async(", "a||", "a??", "new a(", "switch(a){case a:", "async()=>", "async function(){", "class extends "}

// VerifDepthUnits: the same guard check for repeated syntactic units (nested calls, arrows,
// conditionals, unary chains, object/array literals, statements, ...).
func VerifDepthUnits() {
	ui := vRange("unit", 0, len(vnDepthUnits)-1)
	unit := vnDepthUnits[ui]
	rep := func(k int) []byte {
		var b []byte
		for i := 0; i < k; i++ {
			b = append(b, unit...)
		}
		return append(b, 'a')
	}
	if !vSymbolic() {
		_, err := Parse(parse.NewInputBytes(rep(1500000)), Options{})
		_ = err
		return
	}
	L := vParam("L", 3)
	NestedStmtLimit, NestedExprLimit = L, L
	k1, k2 := L+3, vParam("K", 9)
	vDepthReset()
	_, _ = Parse(parse.NewInputBytes(rep(k1)), Options{})
	d1 := vDepth()
	vDepthReset()
	_, _ = Parse(parse.NewInputBytes(rep(k2)), Options{})
	d2 := vDepth()
	vAssert(d2 <= d1, "recursion-depth-not-bounded-by-nesting-limit")
	vReach("depth")
}

// prefix + repeated unit: nesting that only exists behind a particular head (binding patterns in
// declarations, parameters, catch clauses and for heads; class heritage; template substitutions)
var vnDepthPrefUnits = [][2]string{
	{"let ", "{a:"}, {"var ", "{a:"}, {"const ", "{a:"}, {"let ", "[{a:"}, {"let ", "{a:["}, {"let {a=", "{a:"},
	{"function f(", "{a:"}, {"function f(", "[{a:"}, {"function f(a=", "{a:"}, {"(", "{a:"}, {"async(", "{a:"},
	{"try{}catch(", "{a:"}, {"try{}catch(", "["}, {"for(let ", "{a:"}, {"for(var ", "[{a:"}, {"for(", "{a:"},
	{"class A{b(", "{a:"}, {"x={b(", "{a:"}, {"x=({a:", "{a:"}, {"[x=", "{a:"}, {"({a:", "[{a:"},
}

func VerifDepthPrefUnits() {
	ui := vRange("unit", 0, len(vnDepthPrefUnits)-1)
	pu := vnDepthPrefUnits[ui]
	rep := func(k int) []byte {
		b := []byte(pu[0])
		for i := 0; i < k; i++ {
			b = append(b, pu[1]...)
		}
		return append(b, 'a')
	}
	if !vSymbolic() {
		_, err := Parse(parse.NewInputBytes(rep(1500000)), Options{})
		_ = err
		return
	}
	L := vParam("L", 3)
	NestedStmtLimit, NestedExprLimit = L, L
	k1, k2 := L+3, vParam("K", 9)
	vDepthReset()
	_, _ = Parse(parse.NewInputBytes(rep(k1)), Options{})
	d1 := vDepth()
	vDepthReset()
	_, _ = Parse(parse.NewInputBytes(rep(k2)), Options{})
	d2 := vDepth()
	vAssert(d2 <= d1, "recursion-depth-not-bounded-by-nesting-limit")
	vReach("depth")
}
