//go:build verif

package js

import (
	"io"

	"github.com/tdewolff/parse/v2"
)

const (
	vnC01   = 1
	vnC02   = 2
	vnC06   = 4
	vnRelex = 8
)

var vnTruncHeads = []string{"naam\xF0\xA0\x80", "a\xE2\x80", "a\xC3", "\xF0\xA0", "`\xF0\xA0\x80", "'\xF0\xA0\x80", "//\xF0\xA0\x80", "/*\xF0\xA0\x80", "#\xF0\xA0\x80", "a.\xF0\x9F\x98", "\\u{\xF0\xA0\x80", "1\xF0\xA0\x80", "\xE1\x9B", "a\xF0\x90\x80"}

func vnASCII(b []byte) {
	if vParam("ascii", 1) != 0 {
		for i := range b {
			vAssume(b[i] < 0x80)
		}
	}
}

// vnLexW drives the JS lexer over every (ASCII) byte string of length 0..N,
// continuing after lexical errors until the end-of-input report.
func vnLexW(mode int) {
	n := vRange("n", 0, vParam("N", 2))
	b := vBytes("b", n)
	vnASCII(b)
	if vParam("TRUNC", 0) != 0 {
		// a concrete head that ends in a truncated multi-byte sequence, then the symbolic bytes
		pre := vnTruncHeads[vRange("trunc", 0, len(vnTruncHeads)-1)]
		b = append([]byte(pre), b...)
		n = len(b)
	}
	orig := append([]byte(nil), b...)
	z := parse.NewInputBytes(append(make([]byte, 0, n+1), b...))
	whole := z.Bytes()
	l := NewLexer(z)
	prevEnd := 0
	ended := false
	sawError := false
	for i := 0; i < 2*n+4; i++ {
		tt, data := l.Next()
		vObserve("tok", int(tt), data)
		if tt == ErrorToken && l.Err() == io.EOF {
			ended = true
			vReach("eof")
			vAssert(len(data) == 0, "eof-with-data")
			if mode&vnC02 != 0 && !sawError {
				vAssert(prevEnd == n && z.Offset() == n, "eof-before-end")
			}
			if mode&vnC01 != 0 {
				tt2, d2 := l.Next()
				vAssert(tt2 == ErrorToken && len(d2) == 0 && l.Err() == io.EOF, "not-sticky")
			}
			break
		}
		if mode&vnC01 != 0 {
			vAssert(z.Offset() <= n, "offset-past-end")
			if len(data) > 0 {
				off := vOffsetIn(data, whole)
				vAssert(off >= 0 && off+len(data) <= n, "token-outside-input")
			}
		}
		if tt == ErrorToken {
			vReach("error")
			sawError = true
			continue
		}
		if mode&vnC02 != 0 {
			off := vOffsetIn(data, whole)
			vAssert(len(data) > 0, "empty-token")
			vAssert(off+len(data) == z.Offset(), "token-not-ending-at-offset")
			vAssert(cap(data) == len(data), "token-cap")
			vAssert(off >= prevEnd, "token-overlap")
			if !sawError {
				vAssert(off == prevEnd, "token-gap")
				vAssert(string(data) == string(orig[off:off+len(data)]), "token-bytes-differ")
			}
			prevEnd = off + len(data)
		}
		if mode&vnC06 != 0 && !sawError {
			// (only up to the first lexical error: afterwards the lexeme may still hold rejected bytes)
			// the type of a keyword, punctuator or operator token is the one whose canonical spelling equals its text
			if IsPunctuator(tt) || IsOperator(tt) || IsReservedWord(tt) || tt >= AsToken && tt <= YieldToken {
				vAssert(string(tt.Bytes()) == string(data), "canonical-spelling")
				vReach("canonical")
			}
		}
		if mode&vnRelex != 0 && !sawError && tt != TemplateMiddleToken && tt != TemplateEndToken && tt != TemplateStartToken && tt != TemplateToken {
			l2 := NewLexer(parse.NewInputBytes(append(make([]byte, 0, len(data)+1), data...)))
			tt2, d2 := l2.Next()
			if tt == CommentToken && len(data) >= 3 && data[0] == '-' {
				// closing HTML-like comment `-->` is context dependent (start of line only): a fresh lexer starts at a line start
			}
			vAssert(tt2 == tt && string(d2) == string(data), "relex-differs")
			tt3, _ := l2.Next()
			vAssert(tt3 == ErrorToken && l2.Err() == io.EOF, "relex-trailing")
			vReach("relex")
		}
	}
	vAssert(ended, "no-termination")
	if mode&vnC02 != 0 {
		vAssert(string(whole) == string(orig), "input-altered")
	}
}

func VerifLexW01()   { vnLexW(vnC01) }
func VerifLexW02()   { vnLexW(vnC02) }
func VerifLexW06()   { vnLexW(vnC06) }
func VerifLexRelex() { vnLexW(vnRelex) }
