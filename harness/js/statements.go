//go:build verif

package js

import (
	"github.com/tdewolff/parse/v2"
)

// Grammar-directed statements for C03: a program is *derived* from a small ECMAScript
// statement grammar (productions chosen by the solver, depth-bounded, identifiers symbolic);
// every production builds the source text and, independently of the parser, the fully
// structured String() form the grammar prescribes. js.Parse must accept the program and
// return exactly that structure, under WhileToFor as well (while -> for(;cond;){body}).

var vnKeepEmpty bool

type vnGen struct {
	n           int  // counter for hole names
	w2f         bool // Options.WhileToFor
	inLoop      bool
	inFunc      bool
	maxDepth    int
	decls       int
	exprDepth   int
	lastPrimary bool // the expression derived last is a PrimaryExpression
	noEmpty     bool // the next list item must not be an empty statement (it would merge with its predecessor's ';')
	top         int  // outermost production pinned by parameter (-1: any)
}

func (g *vnGen) tag(s string) string {
	g.n++
	return s + string(rune('a'+g.n/26)) + string(rune('a'+g.n%26))
}

// ident: a one-letter identifier, letter chosen by the solver among a, b, c
func (g *vnGen) ident() string {
	b := vBytes(g.tag("id"), 1)
	c := b[0]
	vAssume(c == 'a' || c == 'b' || c == 'c')
	return string(b)
}

// declName: declared names are pairwise distinct (p, q, r, ...) so that the derived program has
// no redeclaration conflicts; uses are the symbolic identifiers above.
func (g *vnGen) declName() string {
	g.decls++
	return string(rune('o' + g.decls))
}

func vnBlockOf(s string, isBlock bool) string {
	if isBlock {
		return s
	}
	if s == "Stmt()" && !vnKeepEmpty {
		return "Stmt({ })" // for(...); : the parser stores an empty body block
	}
	return "Stmt({ " + s + " })"
}

// stmt returns (source, expected String(), whether the statement is a block)
func (g *vnGen) stmt(depth int) (string, string, bool) {
	saved := g.noEmpty
	g.noEmpty = false
	s, t, b := g.gen(depth, false)
	g.noEmpty = saved
	return s, t, b
}

// item: a StatementListItem (declarations allowed) instead of a Statement
func (g *vnGen) item(depth int) (string, string, bool) { return g.gen(depth, true) }

// listItem: the i-th item of a statement list
func (g *vnGen) listItem(depth, i int) (string, string, bool) {
	saved := g.noEmpty
	g.noEmpty = i > 0
	s, t, b := g.gen(depth, true)
	g.noEmpty = saved
	return s, t, b
}

func (g *vnGen) gen(depth int, item bool) (string, string, bool) {
	hi := 18
	if depth >= g.maxDepth {
		hi = 5 // leaves only
	}
	var k int
	if depth == 0 && g.top >= 0 {
		k = g.top
	} else {
		k = vRange(g.tag("k"), 0, hi)
	}
	switch k {
	case 0:
		x := g.ident()
		return x + ";", "Stmt(" + x + ")", false
	case 1:
		if g.noEmpty {
			// a ';' directly after another statement of a list is consumed as that statement's
			// terminator by this parser (semantics-preserving); not generated
			return "a;", "Stmt(a)", false
		}
		return ";", "Stmt()", false
	case 2:
		return "debugger;", "Stmt(debugger)", false
	case 3:
		x, y := g.declName(), g.ident()
		kwMax := 0
		if item {
			kwMax = 2 // lexical declarations only where a StatementListItem is allowed
		}
		kw := []string{"var", "let", "const"}[vRange(g.tag("decl"), 0, kwMax)]
		return kw + " " + x + "=" + y + ";", "Decl(" + kw + " Binding(" + x + " = " + y + "))", false
	case 4:
		x := g.ident()
		return "throw " + x + ";", "Stmt(throw " + x + ")", false
	case 5:
		if g.inLoop {
			if vBool(g.tag("cont")) {
				return "continue;", "Stmt(continue)", false
			}
			return "break;", "Stmt(break)", false
		}
		if g.inFunc {
			if vBool(g.tag("retv")) {
				x := g.ident()
				return "return " + x + ";", "Stmt(return " + x + ")", false
			}
			return "return;", "Stmt(return)", false
		}
		x, y := g.ident(), g.ident()
		return x + "(" + y + ");", "Stmt(" + x + "(" + y + "))", false
	case 6: // block
		n := vRange(g.tag("bn"), 0, 2)
		src, str := "{", "Stmt({"
		for i := 0; i < n; i++ {
			s, t, _ := g.listItem(depth+1, i)
			src += s
			str += " " + t
		}
		return src + "}", str + " })", true
	case 7: // if / else
		x := g.ident()
		s, t, _ := g.stmt(depth + 1)
		src, str := "if("+x+")"+s, "Stmt(if "+x+" "+t
		if vBool(g.tag("else")) {
			s2, t2, _ := g.stmt(depth + 1)
			src += "else " + s2
			str += " else " + t2
		}
		return src, str + ")", false
	case 8: // while
		x := g.ident()
		saved := g.inLoop
		g.inLoop = true
		s, t, blk := g.stmt(depth + 1)
		g.inLoop = saved
		if g.w2f {
			vnKeepEmpty = true // while(x); becomes for(;x;){;}
			b := vnBlockOf(t, blk)
			vnKeepEmpty = false
			return "while(" + x + ")" + s, "Stmt(for ; " + x + " ; " + b + ")", false
		}
		return "while(" + x + ")" + s, "Stmt(while " + x + " " + t + ")", false
	case 9: // do while
		x := g.ident()
		saved := g.inLoop
		g.inLoop = true
		s, t, _ := g.stmt(depth + 1)
		g.inLoop = saved
		semi := ""
		if vBool(g.tag("dosemi")) {
			semi = ";"
		}
		return "do " + s + "while(" + x + ")" + semi, "Stmt(do " + t + " while " + x + ")", false
	case 10: // for(;;)
		src, str := "for(", "Stmt(for"
		if vBool(g.tag("fi")) {
			x := g.ident()
			src += x
			str += " " + x
		}
		src += ";"
		str += " ;"
		if vBool(g.tag("fc")) {
			x := g.ident()
			src += x
			str += " " + x
		}
		src += ";"
		str += " ;"
		if vBool(g.tag("fp")) {
			x := g.ident()
			src += x + "++"
			str += " (" + x + "++)"
		}
		saved := g.inLoop
		g.inLoop = true
		s, t, blk := g.stmt(depth + 1)
		g.inLoop = saved
		return src + ")" + s, str + " " + vnBlockOf(t, blk) + ")", false
	case 11: // for in / of
		x, y := g.ident(), g.ident()
		op := []string{"in", "of"}[vRange(g.tag("inof"), 0, 1)]
		decl, dstr := "", x
		switch vRange(g.tag("fdecl"), 0, 2) {
		case 1:
			x = g.declName()
			decl, dstr = "var ", "Decl(var Binding("+x+"))"
		case 2:
			x = g.declName()
			decl, dstr = "let ", "Decl(let Binding("+x+"))"
		}
		saved := g.inLoop
		g.inLoop = true
		s, t, blk := g.stmt(depth + 1)
		g.inLoop = saved
		return "for(" + decl + x + " " + op + " " + y + ")" + s, "Stmt(for " + dstr + " " + op + " " + y + " " + vnBlockOf(t, blk) + ")", false
	case 12: // switch
		x := g.ident()
		src, str := "switch("+x+"){", "Stmt(switch "+x
		nc := vRange(g.tag("nc"), 0, 2)
		hadDefault := false
		for i := 0; i < nc; i++ {
			if !hadDefault && vBool(g.tag("def")) {
				hadDefault = true
				src += "default:"
				str += " Clause(default"
			} else {
				y := g.ident()
				src += "case " + y + ":"
				str += " Clause(case " + y
			}
			if vBool(g.tag("cs")) {
				saved := g.inLoop
				g.inLoop = true // break is allowed inside switch
				s, t, _ := g.item(depth + 1)
				g.inLoop = saved
				src += s
				str += " " + t
			}
			str += ")"
		}
		return src + "}", str + ")", false
	case 13: // labelled
		saved := g.inLoop
		g.inLoop = false // a bare continue would need an enclosing loop; keep it simple
		s, t, _ := g.stmt(depth + 1)
		g.inLoop = saved
		return "l:" + s, "Stmt(l : " + t + ")", false
	case 14: // try
		src, str := "try{", "Stmt(try Stmt({"
		if vBool(g.tag("tb")) {
			s, t, _ := g.item(depth + 1)
			src += s
			str += " " + t
		}
		src += "}"
		str += " })"
		form := vRange(g.tag("tf"), 0, 3)
		if form != 3 { // catch
			if form == 0 {
				x := g.declName()
				src += "catch(" + x + "){"
				str += " catch Binding(" + x + ") Stmt({"
			} else {
				src += "catch{"
				str += " catch Stmt({"
			}
			if vBool(g.tag("cb")) {
				s, t, _ := g.item(depth + 1)
				src += s
				str += " " + t
			}
			src += "}"
			str += " })"
		}
		if form >= 2 { // finally
			src += "finally{"
			str += " finally Stmt({"
			if vBool(g.tag("fb")) {
				s, t, _ := g.item(depth + 1)
				src += s
				str += " " + t
			}
			src += "}"
			str += " })"
		}
		return src, str + ")", false
	case 15: // with
		x := g.ident()
		s, t, _ := g.stmt(depth + 1)
		return "with(" + x + ")" + s, "Stmt(with " + x + " " + t + ")", false
	case 16: // function declaration
		if !item {
			return "a;", "Stmt(a)", false
		}
		name := g.declName()
		kind := vRange(g.tag("fk"), 0, 3)
		head, hstr := "function ", "function"
		switch kind {
		case 1:
			head, hstr = "function*", "function*"
		case 2:
			head, hstr = "async function ", "async function"
		case 3:
			head, hstr = "async function*", "async function*"
		}
		params, pstr := "", "Params("
		switch vRange(g.tag("fp"), 0, 3) {
		case 1:
			p := g.declName()
			params, pstr = p, pstr+"Binding("+p+")"
		case 2:
			p, d := g.declName(), g.ident()
			params, pstr = p+"="+d, pstr+"Binding("+p+" = "+d+")"
		case 3:
			p := g.declName()
			params, pstr = "..."+p, pstr+"...Binding("+p+")"
		}
		pstr += ")"
		savedL, savedF := g.inLoop, g.inFunc
		g.inLoop, g.inFunc = false, true
		body, bstr := "{", "Stmt({"
		if vBool(g.tag("fb")) {
			s, t, _ := g.item(depth + 1)
			body += s
			bstr += " " + t
		}
		g.inLoop, g.inFunc = savedL, savedF
		return head + name + "(" + params + ")" + body + "}", "Decl(" + hstr + " " + name + " " + pstr + " " + bstr + " }))", false
	case 17: // class declaration
		if !item {
			return "a;", "Stmt(a)", false
		}
		name := g.declName()
		src, str := "class "+name, "Decl(class "+name
		if vBool(g.tag("ext")) {
			x := g.ident()
			src += " extends " + x
			str += " extends " + x
		}
		src += "{"
		switch vRange(g.tag("cm"), 0, 4) {
		case 1:
			m := g.ident()
			src += m + "(){}"
			str += " Method(" + m + " Params() Stmt({ }))"
		case 2:
			m := g.ident()
			src += "static " + m + "(){}"
			str += " Method(static " + m + " Params() Stmt({ }))"
		case 3:
			m, v := g.ident(), g.ident()
			src += m + "=" + v + ";"
			str += " Field(" + m + " = " + v + ")"
		case 4:
			m := g.ident()
			src += "get " + m + "(){}"
			str += " Method(get " + m + " Params() Stmt({ }))"
		}
		return src + "}", str + ")", false
	case 18: // expression statement derived from the expression grammar
		e, t := g.expr(0)
		if t[0] == '(' && t[len(t)-1] == ')' {
			return e + ";", "Stmt" + t, false
		}
		return e + ";", "Stmt(" + t + ")", false
	}
	return ";", "Stmt()", false
}

// VerifStatements: a program of 1..2 derived statements.
func VerifStatements() {
	g := &vnGen{maxDepth: vParam("DEPTH", 1), exprDepth: vParam("EDEPTH", 0), w2f: vRange("whileToFor", 0, 1) == 1}
	g.top = vParam("TOP", -1)
	n := vParam("COUNT", 1)
	src, want := "", ""
	for i := 0; i < n; i++ {
		s, t, _ := g.listItem(0, i)
		src += s
		if i > 0 {
			want += " "
		}
		want += t
	}
	ast, err := Parse(parse.NewInputBytes(append(make([]byte, 0, len(src)+1), src...)), Options{WhileToFor: g.w2f})
	vAssert(err == nil, "derived-program-rejected")
	if err != nil {
		return
	}
	vAssert(ast.String() == want, "tree-differs-from-grammar-structure")
	if vParam("RT", 0) != 0 {
		// C05: the printed text parses to the same structure and prints identically again
		out := ast.JSString()
		ast2, err2 := Parse(parse.NewInputBytes(append(make([]byte, 0, len(out)+1), out...)), Options{})
		vAssert(err2 == nil, "printed-program-rejected")
		if err2 == nil {
			vAssert(ast2.String() == ast.String(), "reparsed-tree-differs")
			vAssert(ast2.JSString() == out, "second-print-differs")
		}
		vReach("roundtrip")
	}
	vReach("statements")
}

// expr derives an expression that can start an expression statement (no leading '{', function,
// class, let[) and returns its source and its String() form. sub-expressions come from sub().
func (g *vnGen) expr(depth int) (string, string) {
	s, t, prim := g.expr1(depth)
	g.lastPrimary = prim
	return s, t
}

func (g *vnGen) expr1(depth int) (src, str string, primary bool) {
	x := g.ident()
	k := vRange(g.tag("e"), 0, 33)
	s, t := g.expr2(depth, k, x)
	switch k {
	case 0, 13, 14:
		primary = true
	case 18:
		primary = len(s) > 0 && s[0] == '`'
	case 19:
		primary = s[0] != '/' // a regular expression after an operator '/' would read as a comment
	default:
		primary = k >= 22 && s == t && len(s) > 1 && s[1] != '.'
	}
	return s, t, primary
}

func (g *vnGen) expr2(depth, k int, x string) (string, string) {
	switch k {
	case 0:
		return x, x
	case 1: // member
		y := g.ident()
		return x + "." + y, "(" + x + "." + y + ")"
	case 2:
		s, t := g.sub(depth)
		return x + "[" + s + "]", "(" + x + "[" + t + "])"
	case 3: // call with 0..2 arguments, optional spread
		n := vRange(g.tag("argn"), 0, 2)
		src, str := x+"(", "("+x+"("
		for i := 0; i < n; i++ {
			if i > 0 {
				src += ","
				str += ", "
			}
			if vBool(g.tag("spread")) {
				src += "..."
				str += "..."
			}
			s, t := g.ident(), ""
			if i == 0 {
				s, t = g.sub(depth) // only the first argument is derived recursively
			} else {
				t = s
			}
			src += s
			str += t
		}
		return src + ")", str + "))"
	case 4: // optional chaining
		y := g.ident()
		switch vRange(g.tag("opt"), 0, 2) {
		case 0:
			return x + "?." + y, "(" + x + "?." + y + ")"
		case 1:
			return x + "?.[" + y + "]", "(" + x + "?.[" + y + "])"
		}
		return x + "?.(" + y + ")", "(" + x + "?.(" + y + "))"
	case 5: // new
		switch vRange(g.tag("new"), 0, 2) {
		case 0:
			return "new " + x, "(new " + x + ")"
		case 1:
			y := g.ident()
			return "new " + x + "(" + y + ")", "(new " + x + "(" + y + "))"
		}
		y, z := g.ident(), g.ident()
		return "new " + x + "." + y + "(" + z + ")", "(new (" + x + "." + y + ")(" + z + "))"
	case 6: // chains: left-associative member / call
		y, z := g.ident(), g.ident()
		switch vRange(g.tag("chain"), 0, 3) {
		case 0:
			return x + "." + y + "." + z, "((" + x + "." + y + ")." + z + ")"
		case 1:
			return x + "." + y + "(" + z + ")", "((" + x + "." + y + ")(" + z + "))"
		case 2:
			return x + "(" + y + ")." + z, "((" + x + "(" + y + "))." + z + ")"
		}
		return x + "[" + y + "][" + z + "]", "((" + x + "[" + y + "])[" + z + "])"
	case 7: // prefix unary
		op := []string{"!", "-", "+", "~", "typeof ", "void ", "delete ", "++", "--"}[vRange(g.tag("un"), 0, 8)]
		return op + x, "(" + op + x + ")"
	case 8: // postfix
		op := []string{"++", "--"}[vRange(g.tag("post"), 0, 1)]
		return x + op, "(" + x + op + ")"
	case 9: // binary with a parenthesised right operand
		op := []string{"+", "-", "*", "/", "%", "**", "<<", ">>", ">>>", "<", ">", "<=", ">=", "==", "!=", "===", "!==", "&", "|", "^", "&&", "||", "??", " in ", " instanceof "}[vRange(g.tag("bin"), 0, 24)]
		s, t := g.sub(depth)
		return x + op + s, "(" + x + op + t + ")"
	case 10: // assignment operators
		op := []string{"=", "+=", "-=", "*=", "/=", "%=", "**=", "<<=", ">>=", ">>>=", "&=", "|=", "^=", "&&=", "||=", "??="}[vRange(g.tag("asg"), 0, 15)]
		s, t := g.sub(depth)
		return x + op + s, "(" + x + op + t + ")"
	case 11: // conditional
		s, t := g.sub(depth)
		y := g.ident()
		return x + "?" + s + ":" + y, "(" + x + " ? " + t + " : " + y + ")"
	case 12: // comma
		y := g.ident()
		return x + "," + y, "(" + x + "," + y + ")"
	case 13: // group
		s, t := g.sub(depth)
		return "(" + s + ")", "(" + t + ")"
	case 14: // array literal with elision and spread
		y := g.ident()
		switch vRange(g.tag("arr"), 0, 4) {
		case 0:
			return "[]", "[]"
		case 1:
			return "[" + x + "]", "[" + x + "]"
		case 2:
			return "[" + x + ",," + y + "]", "[" + x + ", , " + y + "]"
		case 3:
			return "[..." + x + "," + y + "]", "[..." + x + ", " + y + "]"
		}
		return "[" + x + "," + y + ",]", "[" + x + ", " + y + "]"
	case 15: // object literal (in an assignment, so that '{' does not start the statement)
		y := g.ident()
		switch vRange(g.tag("obj"), 0, 7) {
		case 0:
			return x + "={}", "(" + x + "={})"
		case 1:
			return x + "={" + y + "}", "(" + x + "={" + y + "})"
		case 2:
			if y == x { // {a:a} is stored (and printed) as the shorthand {a}
				return x + "={" + y + ":" + x + "}", "(" + x + "={" + x + "})"
			}
			return x + "={" + y + ":" + x + "}", "(" + x + "={" + y + ": " + x + "})"
		case 3:
			return x + "={[" + y + "]:" + x + "}", "(" + x + "={[" + y + "]: " + x + "})"
		case 4:
			return x + "={..." + y + "}", "(" + x + "={..." + y + "})"
		case 5:
			return x + "={" + y + "(){}}", "(" + x + "={Method(" + y + " Params() Stmt({ }))})"
		case 6:
			return x + "={get " + y + "(){}}", "(" + x + "={Method(get " + y + " Params() Stmt({ }))})"
		}
		return x + "={'s-t':" + y + ",1:" + x + "}", "(" + x + "={'s-t': " + y + ", 1: " + x + "})"
	case 16: // arrow functions
		p, y := g.declName(), g.ident()
		switch vRange(g.tag("arrow"), 0, 4) {
		case 0:
			return p + "=>" + y, "(Params(Binding(" + p + ")) => Stmt({ Stmt(return " + y + ") }))"
		case 1:
			return "(" + p + ")=>{" + y + "}", "(Params(Binding(" + p + ")) => Stmt({ Stmt(" + y + ") }))"
		case 2:
			return "()=>" + y, "(Params() => Stmt({ Stmt(return " + y + ") }))"
		case 3:
			return "async " + p + "=>" + y, "(async Params(Binding(" + p + ")) => Stmt({ Stmt(return " + y + ") }))"
		}
		q := g.declName()
		return "(" + p + "," + q + "=" + y + ")=>" + y, "(Params(Binding(" + p + "), Binding(" + q + " = " + y + ")) => Stmt({ Stmt(return " + y + ") }))"
	case 17: // function / class expressions on the right of an assignment
		switch vRange(g.tag("fexpr"), 0, 4) {
		case 0:
			return x + "=function(){}", "(" + x + "=Decl(function Params() Stmt({ })))"
		case 1:
			f := g.declName()
			return x + "=function " + f + "(){}", "(" + x + "=Decl(function " + f + " Params() Stmt({ })))"
		case 2:
			return x + "=async function*(){}", "(" + x + "=Decl(async function* Params() Stmt({ })))"
		case 3:
			return x + "=class{}", "(" + x + "=Decl(class))"
		}
		c, y := g.declName(), g.ident()
		return x + "=class " + c + " extends " + y + "{}", "(" + x + "=Decl(class " + c + " extends " + y + "))"
	case 18: // templates
		y := g.ident()
		switch vRange(g.tag("tpl"), 0, 3) {
		case 0:
			return "`s`", "`s`"
		case 1:
			return "`s${" + x + "}t`", "`s${" + x + "}t`"
		case 2:
			return x + "`s${" + y + "}`", x + "`s${" + y + "}`"
		}
		return "`${" + x + "}${" + y + "}`", "`${" + x + "}${" + y + "}`"
	case 19: // literals
		l := []string{"1", "1.5", ".5e3", "0x1F", "0b1", "0o7", "1n", "1_0", "'s'", "\"s\"", "null", "true", "false", "this", "/r/g"}[vRange(g.tag("lit"), 0, 14)]
		return l, l
	case 20: // destructuring assignment
		y := g.ident()
		switch vRange(g.tag("destr"), 0, 2) {
		case 0:
			return "[" + x + "," + y + "]=" + x, "([" + x + ", " + y + "]=" + x + ")"
		case 1:
			return "[" + x + "=" + y + "]=" + x, "([(" + x + "=" + y + ")]=" + x + ")"
		}
		if y == x {
			return "({" + x + "," + y + ":" + x + "}=" + y + ")", "(({" + x + ", " + x + "}=" + y + "))"
		}
		return "({" + x + "," + y + ":" + x + "}=" + y + ")", "(({" + x + ", " + y + ": " + x + "}=" + y + "))"
	case 21: // precedence of mixed binary operators, left and right associativity
		y, z := g.ident(), g.ident()
		switch vRange(g.tag("prec"), 0, 5) {
		case 0:
			return x + "+" + y + "*" + z, "(" + x + "+(" + y + "*" + z + "))"
		case 1:
			return x + "*" + y + "+" + z, "((" + x + "*" + y + ")+" + z + ")"
		case 2:
			return x + "-" + y + "-" + z, "((" + x + "-" + y + ")-" + z + ")"
		case 3:
			return x + "**" + y + "**" + z, "(" + x + "**(" + y + "**" + z + "))"
		case 4:
			return x + "=" + y + "=" + z, "(" + x + "=(" + y + "=" + z + "))"
		}
		return x + "||" + y + "&&" + z, "(" + x + "||(" + y + "&&" + z + "))"
	}
	// 22..33: an identifier-like keyword usable as a name (contextual keywords are identifiers)
	kw := []string{"async", "of", "get", "set", "static", "as", "from", "await", "yield", "let", "target", "meta"}[k-22]
	if kw == "let" || kw == "await" || kw == "yield" {
		return x + "." + kw, "(" + x + "." + kw + ")"
	}
	return kw, kw
}

// sub: a sub-expression in an unambiguous slot (argument, index, right operand): anything that
// is not a primary expression is wrapped in a group, so that the slot stays unambiguous
func (g *vnGen) sub(depth int) (string, string) {
	if depth >= g.exprDepth {
		y := g.ident()
		return y, y
	}
	s, t := g.expr(depth + 1)
	if !g.lastPrimary {
		return "(" + s + ")", "(" + t + ")"
	}
	return s, t
}
