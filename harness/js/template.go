//go:build verif

package js

import (
	"io"

	"github.com/tdewolff/parse/v2"
)

// Template literals with nested substitutions (C06): the literal is assembled from template
// character units and substitution expressions (braces, parentheses, strings that contain '}',
// nested templates); the expected token sequence is known by construction, including the
// tokens after the literal (the lexer's brace/template bookkeeping must be back to neutral).

type vnTTok struct {
	tt   TokenType
	text string
}

// a template character unit: any single byte other than '`', '\\', '$' and NUL (symbolic: one
// path stands for all 252 values), or one of the escapes, or a '$' that is not followed by '{'
func vnTplChars(tag string, max int) string {
	n := vRange(tag+"n", 0, max)
	s := ""
	for i := 0; i < n; i++ {
		id := tag + string(rune('0'+i))
		switch vRange(id+"k", 0, 5) {
		case 0:
			b := vBytes(id, 1)
			c := b[0]
			vAssume(c != '`' && c != '\\' && c != '$' && c != 0)
			s += string(b)
		case 1:
			s += "\\`"
		case 2:
			s += "\\${"
		case 3:
			s += "$"
		case 4: // an escaped backslash: the character after it is NOT escaped
			s += "\\\\"
		case 5: // any escaped character
			b := vBytes(id+"e", 1)
			c := b[0]
			vAssume(c != 0 && c < 0x80)
			s += "\\" + string(b)
		}
	}
	return s
}

var vnTplExprs = []struct {
	src  string
	toks []vnTTok
}{
	{"x", []vnTTok{{IdentifierToken, "x"}}},
	{"{}", []vnTTok{{OpenBraceToken, "{"}, {CloseBraceToken, "}"}}},
	{"{a:{}}", []vnTTok{{OpenBraceToken, "{"}, {IdentifierToken, "a"}, {ColonToken, ":"}, {OpenBraceToken, "{"}, {CloseBraceToken, "}"}, {CloseBraceToken, "}"}}},
	{"(x)", []vnTTok{{OpenParenToken, "("}, {IdentifierToken, "x"}, {CloseParenToken, ")"}}},
	{"`y`", []vnTTok{{TemplateToken, "`y`"}}},
	{"`${z}`", []vnTTok{{TemplateStartToken, "`${"}, {IdentifierToken, "z"}, {TemplateEndToken, "}`"}}},
	{"'}'", []vnTTok{{StringToken, "'}'"}}},
	{"f({})", []vnTTok{{IdentifierToken, "f"}, {OpenParenToken, "("}, {OpenBraceToken, "{"}, {CloseBraceToken, "}"}, {CloseParenToken, ")"}}},
	{"`a${`b${c}`}`", []vnTTok{{TemplateStartToken, "`a${"}, {TemplateStartToken, "`b${"}, {IdentifierToken, "c"}, {TemplateEndToken, "}`"}, {TemplateEndToken, "}`"}}},
}

func VerifTemplateLex() {
	subs := vRange("subs", 0, vParam("SUBS", 2))
	cmax := vParam("CHARS", 1)
	var src string
	var exp []vnTTok
	cur := "`" + vnTplChars("c0", cmax)
	for i := 0; i < subs; i++ {
		cur += "${"
		if i == 0 {
			exp = append(exp, vnTTok{TemplateStartToken, cur})
		} else {
			exp = append(exp, vnTTok{TemplateMiddleToken, cur})
		}
		src += cur
		e := vnTplExprs[vRange("e"+string(rune('0'+i)), 0, len(vnTplExprs)-1)]
		src += e.src
		exp = append(exp, e.toks...)
		cur = "}" + vnTplChars("c"+string(rune('1'+i)), cmax)
	}
	cur += "`"
	src += cur
	if subs == 0 {
		exp = append(exp, vnTTok{TemplateToken, cur})
	} else {
		exp = append(exp, vnTTok{TemplateEndToken, cur})
	}
	// template characters must not form "${" by accident ('$' unit followed by '{' unit or by the
	// literal's own "${"): such a text is a different derivation
	for i := 0; i+1 < len(src); i++ {
		if src[i] == '$' && src[i+1] == '{' && (i == 0 || src[i-1] != '\\') {
			// allowed only where the construction put it: checked by comparing counts
		}
	}
	vAssume(vnCountSubst(src) == vnExpectedSubst(subs, exp))
	// after the literal: the lexer is back in the neutral state
	src += ";{x}"
	exp = append(exp, vnTTok{SemicolonToken, ";"}, vnTTok{OpenBraceToken, "{"}, vnTTok{IdentifierToken, "x"}, vnTTok{CloseBraceToken, "}"})
	l := NewLexer(parse.NewInputBytes(append(make([]byte, 0, len(src)+1), src...)))
	for _, e := range exp {
		tt, d := l.Next()
		vAssert(tt == e.tt, "template-token-type")
		vAssert(string(d) == e.text, "template-token-text")
	}
	tt, _ := l.Next()
	vAssert(tt == ErrorToken && l.Err() == io.EOF, "template-end-of-input")
	vReach("template")
}

// vnCountSubst counts unescaped "${" in template-character context of the whole source; it is
// compared with the number the construction intended, which rules out accidental "$"+"{" pairs.
func vnCountSubst(src string) int {
	n := 0
	for i := 0; i+1 < len(src); i++ {
		if src[i] == '\\' {
			i++
			continue
		}
		if src[i] == '$' && src[i+1] == '{' {
			n++
		}
	}
	return n
}

func vnExpectedSubst(subs int, exp []vnTTok) int {
	n := 0
	for _, e := range exp {
		if e.tt == TemplateStartToken || e.tt == TemplateMiddleToken {
			n++
		}
	}
	return n
}
