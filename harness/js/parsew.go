//go:build verif

package js

import (
	"bytes"

	"github.com/tdewolff/parse/v2"
)

type vnCountVisitor struct{ enters, exits int }

func (v *vnCountVisitor) Enter(n INode) IVisitor { v.enters++; return v }
func (v *vnCountVisitor) Exit(n INode)           { v.exits++ }

var vnStmtPrefixes = []string{"while(a)", "for(;;)", "for(a in b)", "for(a of b)", "if(a)", "if(a)b;else ", "do ", "do;while(a)", "a:", "with(a)", "switch(a){", "try{}catch{", "class A{", "function f(){", "x=>", "return ", "throw ", "var a=", "let[a]=", "import a from", "export ", "async function*f(){yield", "`${a}", "a?.", "new a", "label:{break ", "x={get a(){", "x={...a,", "class A{static{", "class A{#a;b(){this.#a",
	// complete single-expression programs (JSON conversion of every property / element form)
	"x={a(){}}", "[{\"n\":1,size(){return 3}}]", "({get a(){},set a(b){}})", "({async*a(){}})", "x={[a]:1}", "[{...a}]", "({a})", "[1,,2]", "({\"k\":[1,{\"b\":null}]})", "[-1,+2,!0,`t`,/r/]",
	// truncated multi-byte sequences at the end of the input (a symbolic byte may follow)
	"naam\xF0\xA0\x80", "a\xE2\x80", "a\xC3", "x=\xF0\xA0", "`\xF0\xA0\x80", "'\xF0\xA0\x80", "//\xF0\xA0\x80", "/\xF0\xA0\x80", "#\xF0\xA0\x80", "a.\xF0\x9F\x98"}

// VerifParseW01: js.Parse under every Options value on every (ASCII) input of length 0..N;
// an accepted tree can be printed (String, JS), walked and converted to JSON without a panic.
func VerifParseW01() {
	n := vRange("n", 0, vParam("N", 2))
	b := vBytes("b", n)
	vnASCII(b)
	if vParam("PRE", 0) != 0 {
		// statement sketches: a concrete construct head followed by the symbolic bytes
		pre := vnStmtPrefixes[vRange("pre", 0, len(vnStmtPrefixes)-1)]
		b = append([]byte(pre), b...)
		n = len(b)
	}
	o := Options{WhileToFor: vRange("whileToFor", 0, 1) == 1, Inline: vRange("inline", 0, 1) == 1}
	ast, err := Parse(parse.NewInputBytes(append(make([]byte, 0, n+1), b...)), o)
	if err != nil {
		vReach("rejected")
		vObserve("err", 1)
		return
	}
	vReach("accepted")
	s := ast.String()
	var w bytes.Buffer
	ast.JS(&w)
	vObserve("ast", s, w.Bytes())
	v := &vnCountVisitor{}
	Walk(v, ast)
	vAssert(v.enters == v.exits, "walk-unbalanced")
	var wj bytes.Buffer
	_ = ast.JSON(&wj)
	vReach("json")
}
