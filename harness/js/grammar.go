//go:build verif

package js

import (
	"github.com/tdewolff/parse/v2"
)

// ECMA-262 §12.8 punctuators (independent of js/tokentype.go), longest first within a first byte.
var refPunct = []string{
	">>>=", "...", "===", "!==", "**=", "<<=", ">>=", ">>>", "&&=", "||=", "??=",
	"=>", "==", "!=", "<=", ">=", "&&", "||", "??", "?.", "++", "--", "+=", "-=", "*=", "/=", "%=", "&=", "|=", "^=", "<<", ">>", "**",
	"{", "}", "(", ")", "[", "]", ".", ";", ",", "<", ">", "+", "-", "*", "/", "%", "&", "|", "^", "!", "~", "?", ":", "=",
}

func vnAt(b []byte, i int) byte {
	if i < len(b) {
		return b[i]
	}
	return 0
}

func refLongestPunct(b []byte) int {
	best := 0
	for _, p := range refPunct {
		if len(p) <= len(b) && len(p) > best && string(b[:len(p)]) == p {
			best = len(p)
		}
	}
	return best
}

func refIDStart(c byte) bool { return c >= 'a' && c <= 'z' || c >= 'A' && c <= 'Z' || c == '$' || c == '_' }
func refIDPart(c byte) bool  { return refIDStart(c) || c >= '0' && c <= '9' }
func refDec(c byte) bool     { return c >= '0' && c <= '9' }

var refKeywords = []string{"await", "break", "case", "catch", "class", "const", "continue", "debugger", "default", "delete", "do", "else", "enum", "export", "extends", "false", "finally", "for", "function", "if", "import", "in", "instanceof", "new", "null", "return", "super", "switch", "this", "throw", "true", "try", "typeof", "var", "void", "while", "with", "yield", "let", "static", "implements", "interface", "package", "private", "protected", "public", "as", "async", "from", "get", "meta", "of", "set", "target"}

func vnLex1(b []byte) (TokenType, []byte, *Lexer) {
	l := NewLexer(parse.NewInputBytes(append(make([]byte, 0, len(b)+1), b...)))
	tt, d := l.Next()
	return tt, d, l
}

// VerifTokenRef: first token of an ASCII buffer against reference predicates from ECMA-262 §12
// (one-way: where the reference recognises a token of kind K and length m, Next returns it).
func VerifTokenRef() {
	n := vRange("n", 1, vParam("N", 3))
	b := vBytes("b", n)
	for i := range b {
		vAssume(b[i] < 0x80 && b[i] != 0 && b[i] != '\\')
	}
	tt, d, _ := vnLex1(b)
	c := b[0]
	expectText := func(m int, label string) {
		vAssert(tt != ErrorToken && len(d) == m, label)
		vReach(label)
	}
	switch {
	case c == ' ' || c == '\t' || c == '\v' || c == '\f':
		m := 0
		for m < n && (b[m] == ' ' || b[m] == '\t' || b[m] == '\v' || b[m] == '\f') {
			m++
		}
		vAssert(tt == WhitespaceToken && len(d) == m, "whitespace")
		vReach("whitespace")
	case c == '\n' || c == '\r':
		m := 0
		for m < n && (b[m] == '\n' || b[m] == '\r') {
			m++
		}
		vAssert(tt == LineTerminatorToken && len(d) == m, "lineterminator")
		vReach("lineterminator")
	case c == '/' && vnAt(b, 1) == '/':
		m := 2
		for m < n && b[m] != '\n' && b[m] != '\r' {
			m++
		}
		vAssert(tt == CommentToken && len(d) == m, "line-comment")
		vReach("line-comment")
	case c == '/' && vnAt(b, 1) == '*':
		end, lt := -1, false
		for j := 2; j+1 < n; j++ {
			if b[j] == '*' && b[j+1] == '/' {
				end = j + 2
				break
			}
			if b[j] == '\n' || b[j] == '\r' {
				lt = true
			}
		}
		if end > 0 {
			if lt {
				vAssert(tt == CommentLineTerminatorToken && len(d) == end, "comment-with-lineterminator")
				vReach("comment-with-lineterminator")
			} else {
				vAssert(tt == CommentToken && len(d) == end, "block-comment")
				vReach("block-comment")
			}
		}
	case c == '<' && vnAt(b, 1) == '!' && vnAt(b, 2) == '-' && vnAt(b, 3) == '-':
		// HTML-like comment (Annex B)
	case c == '-' && vnAt(b, 1) == '-' && vnAt(b, 2) == '>':
		// HTML-like close comment at line start (Annex B)
	case c == '"' || c == '\'':
		m := -1
		for j := 1; j < n; j++ {
			if b[j] == c {
				m = j + 1
				break
			}
			if b[j] == '\n' || b[j] == '\r' {
				break
			}
		}
		if m > 0 {
			vAssert(tt == StringToken && len(d) == m, "string")
			vReach("string")
		} else {
			vAssert(tt == ErrorToken, "unterminated-string-accepted")
			vReach("string-error")
		}
	case refIDStart(c):
		m := 1
		for m < n && refIDPart(b[m]) {
			m++
		}
		kw := false
		for _, k := range refKeywords {
			if string(b[:m]) == k {
				kw = true
			}
		}
		vAssert(len(d) == m, "identifier-length")
		if kw {
			vAssert(tt != IdentifierToken && tt != ErrorToken && string(tt.Bytes()) == string(b[:m]), "keyword-type")
			vReach("keyword")
		} else {
			vAssert(tt == IdentifierToken, "identifier")
			vReach("identifier")
		}
	case refDec(c) || c == '.' && refDec(vnAt(b, 1)):
		// a run of digits with numeric separators: D (_? D)* - a '_' belongs to the literal only
		// between two digits of the run's radix
		run := func(j int, ok func(byte) bool) int {
			for j < n && ok(b[j]) {
				j++
				if vnAt(b, j) == '_' && ok(vnAt(b, j+1)) {
					j++
				}
			}
			return j
		}
		isBin := func(c byte) bool { return c == '0' || c == '1' }
		isOct := func(c byte) bool { return c >= '0' && c <= '7' }
		// decimal literals without separators / legacy octal; 0x 0b 0o prefixed integers; BigInt suffix
		j := 0
		kind := IntegerToken
		if c == '0' && (vnAt(b, 1) == 'x' || vnAt(b, 1) == 'X') && refHexD(vnAt(b, 2)) {
			j = run(2, refHexD)
			kind = HexadecimalToken
			if vnAt(b, j) == 'n' {
				j++
			}
		} else if c == '0' && (vnAt(b, 1) == 'b' || vnAt(b, 1) == 'B') && (vnAt(b, 2) == '0' || vnAt(b, 2) == '1') {
			j = run(2, isBin)
			kind = BinaryToken
			if vnAt(b, j) == 'n' {
				j++
			}
		} else if c == '0' && (vnAt(b, 1) == 'o' || vnAt(b, 1) == 'O') && vnAt(b, 2) >= '0' && vnAt(b, 2) <= '7' {
			j = run(2, isOct)
			kind = OctalToken
			if vnAt(b, j) == 'n' {
				j++
			}
		} else {
			if c == '0' && refDec(vnAt(b, 1)) {
				return // legacy octal: rejected by the lexer on purpose
			}
			if c == '0' {
				j = 1 // a leading zero stands alone (no separator after it)
			} else {
				j = run(0, refDec)
			}
			if vnAt(b, j) == 'n' && j > 0 {
				j++
			} else {
				if vnAt(b, j) == '.' {
					kind = DecimalToken
					j = run(j+1, refDec)
				}
				if vnAt(b, j) == 'e' || vnAt(b, j) == 'E' {
					k := j + 1
					if vnAt(b, k) == '+' || vnAt(b, k) == '-' {
						k++
					}
					if !refDec(vnAt(b, k)) {
						return // malformed exponent: an error in both
					}
					j = run(k, refDec)
					kind = DecimalToken
				}
			}
		}
		vAssert(tt == kind && len(d) == j, "numeric-literal")
		vReach("numeric")
	default:
		if m := refLongestPunct(b); m > 0 {
			if c == '?' && vnAt(b, 1) == '.' && refDec(vnAt(b, 2)) {
				m = 1 // `?.` followed by a digit is `?` then a number
			}
			if c == '`' {
				return
			}
			expectText(m, "punctuator-maximal-munch")
			vAssert(string(tt.Bytes()) == string(b[:m]), "punctuator-type")
		}
	}
}

func refHexD(c byte) bool { return refDec(c) || c >= 'a' && c <= 'f' || c >= 'A' && c <= 'F' }

// VerifRegExp: after a '/' or '/=' token, RegExp() re-reads a well-formed regular expression
// literal (class brackets, escaped '/') as one RegExpToken spanning body and flags.
func VerifRegExp() {
	n := vRange("n", 1, vParam("N", 3))
	body := vBytes("b", n)
	for i := range body {
		vAssume(body[i] < 0x80 && body[i] != 0 && body[i] != '\n' && body[i] != '\r')
	}
	// reference: body well-formed iff every '[' closes, '\' is followed by a character, and no bare '/' outside a class
	inClass := false
	ok := true
	for i := 0; i < n; i++ {
		switch c := body[i]; {
		case c == '\\':
			i++
			if i >= n {
				ok = false
			}
		case c == '[':
			inClass = true
		case c == ']':
			inClass = false
		case c == '/' && !inClass:
			ok = false
		}
	}
	vAssume(ok && !inClass)
	vAssume(body[0] != '*' && body[0] != '/')
	src := append(append([]byte{'/'}, body...), '/', 'g', 'i', ';')
	l := NewLexer(parse.NewInputBytes(append(make([]byte, 0, len(src)+1), src...)))
	tt, _ := l.Next()
	vAssert(tt == DivToken || tt == DivEqToken, "first-token-not-div")
	tt, d := l.RegExp()
	vAssert(tt == RegExpToken && len(d) == n+4, "regexp-token")
	vAssert(string(d) == string(src[:n+4]), "regexp-token-not-the-source-bytes")
	tt, d = l.Next()
	vAssert(tt == SemicolonToken, "token-after-regexp")
	vReach("regexp")
}

// VerifStringEsc: a string literal with one backslash followed by symbolic bytes: a
// LineTerminatorSequence after the backslash (LF, CR, CR LF) is a line continuation, any
// other character is escaped; the literal ends at the first unescaped matching quote.
func VerifStringEsc() {
	n := vRange("n", 1, vParam("N", 3))
	tail := vBytes("b", n)
	for i := range tail {
		c := tail[i]
		vAssume(c == '\n' || c == '\r' || c == '"' || c == '\\' || c == 'a' || c == '\'')
	}
	src := append(append([]byte("\"a\\"), tail...), '"', ';')
	// reference scan
	i := 2 // at the backslash
	end := -1
	for i < len(src) {
		c := src[i]
		if c == '\\' {
			if src[i+1] == '\r' && i+2 < len(src) && src[i+2] == '\n' {
				i += 3
			} else {
				i += 2
			}
			continue
		}
		if c == '"' {
			end = i + 1
			break
		}
		if c == '\n' || c == '\r' {
			break
		}
		i++
	}
	tt, d, _ := vnLex1(src)
	if end > 0 && end <= len(src) {
		vAssert(tt == StringToken && len(d) == end, "string-with-escape")
		vReach("string-esc")
	} else {
		vAssert(tt == ErrorToken, "unterminated-string-accepted")
		vReach("string-esc-error")
	}
}
