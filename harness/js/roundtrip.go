//go:build verif

package js

import (
	"bytes"
	"reflect"

	"github.com/tdewolff/parse/v2"
)

// vnSig records the shape of a tree: node type names in walk order, with operators,
// literal texts, identifier names and declaration kinds; GroupExpr nodes are skipped.
type vnSig struct{ out []byte }

func (v *vnSig) Enter(n INode) IVisitor {
	switch n := n.(type) {
	case *GroupExpr:
		return v
	case *BinaryExpr:
		v.out = append(v.out, 'B')
		v.out = append(v.out, n.Op.Bytes()...)
	case *UnaryExpr:
		v.out = append(v.out, 'U')
		v.out = append(v.out, n.Op.Bytes()...)
	case *LiteralExpr:
		v.out = append(v.out, 'L', vnLitClass(n.TokenType))
		v.out = append(v.out, n.Data...)
	case LiteralExpr:
		v.out = append(v.out, 'L', vnLitClass(n.TokenType))
		v.out = append(v.out, n.Data...)
	case *Var:
		v.out = append(v.out, 'V')
		v.out = append(v.out, n.Data...)
	case *VarDecl:
		v.out = append(v.out, 'D', byte(n.TokenType))
	default:
		v.out = append(v.out, reflect.TypeOf(n).String()...)
	}
	v.out = append(v.out, '|')
	return v
}

// vnLitClass: a quoted numeric property key is stored as DecimalToken by the parser while the
// same digits re-lex as IntegerToken; both denote the same literal, so they share a class.
func vnLitClass(tt TokenType) byte {
	if tt == DecimalToken || tt == IntegerToken {
		return 'N'
	}
	return byte(tt)
}

func (v *vnSig) Exit(n INode) {
	if _, ok := n.(*GroupExpr); !ok {
		v.out = append(v.out, ')')
	}
}

func vnSignature(ast *AST) []byte {
	s := &vnSig{}
	Walk(s, ast)
	return s.out
}

// vnRoundTrip: the text written by JS() is accepted, parses to the same tree modulo
// GroupExpr nodes, and printing the second tree reproduces the text byte for byte.
func vnRoundTrip(src []byte, o Options) {
	ast, err := Parse(parse.NewInputBytes(append(make([]byte, 0, len(src)+1), src...)), o)
	if err != nil {
		vReach("rejected")
		return
	}
	vReach("accepted")
	var w1 bytes.Buffer
	ast.JS(&w1)
	y := append([]byte(nil), w1.Bytes()...)
	vObserve("js", y)
	ast2, err2 := Parse(parse.NewInputBytes(append(make([]byte, 0, len(y)+1), y...)), o)
	vAssert(err2 == nil, "printed-text-rejected")
	if err2 != nil {
		return
	}
	var w2 bytes.Buffer
	ast2.JS(&w2)
	vAssert(string(w2.Bytes()) == string(y), "second-print-differs")
	vAssert(string(vnSignature(ast2)) == string(vnSignature(ast)), "reparsed-tree-differs")
	vReach("roundtrip")
}

// VerifRoundTripW: every (ASCII) input of length 0..N under every Options value.
func VerifRoundTripW() {
	n := vRange("n", 0, vParam("N", 2))
	b := vBytes("b", n)
	vnASCII(b)
	o := Options{WhileToFor: vRange("whileToFor", 0, 1) == 1, Inline: vRange("inline", 0, 1) == 1}
	vnRoundTrip(b, o)
}

var vnRTSketches = [][2]string{
	{"`x", "y`"}, {"\"", "\""}, {"/", "/"}, {"a=", ".b"}, {"/*!", "*/"},
	{"x={\"", "\":1}"}, {"x={", ":1}"}, {"a", "b"}, {"a", "=b"}, {"class A{\"", "\"(){}}"}, {"x=", "n"},
	{"+ +a", ""}, {"a+ ", "b"}, {"+ ", "a"}, {"- ", "a"}, {"a=+ ", "b"}, {"a=- ", "b"}, {"a- ", "b"}, {"for((a in b);;);", ""}, {"(let)[0]", ""}, {"1", ".a"}, {"a=", "n"},
}

// VerifRoundTripSketch: literals with symbolic bytes (including line breaks) printed at
// block nesting depth d, so that the Indenter bypass of literal nodes is exercised.
func VerifRoundTripSketch() {
	i := vRange("sketch", 0, len(vnRTSketches)-1)
	d := vRange("depth", 0, vParam("D", 2))
	n := vRange("n", 0, vParam("N", 2))
	hole := vBytes("b", n)
	vnASCII(hole)
	var src []byte
	for k := 0; k < d; k++ {
		src = append(src, '{')
	}
	src = append(src, vnRTSketches[i][0]...)
	src = append(src, hole...)
	src = append(src, vnRTSketches[i][1]...)
	for k := 0; k < d; k++ {
		src = append(src, '}')
	}
	vnRoundTrip(src, Options{})
}
