//go:build verif

package js

import (
	"bytes"

	"github.com/tdewolff/parse/v2"
)

type vnEvent struct {
	enter bool
	n     INode
}

type vnRecorder struct {
	events []vnEvent
	stopAt int // Enter number (1-based) at which nil is returned; 0 = never
	enters int
}

func (v *vnRecorder) Enter(n INode) IVisitor {
	v.enters++
	v.events = append(v.events, vnEvent{true, n})
	if v.enters == v.stopAt {
		return nil
	}
	return v
}

func (v *vnRecorder) Exit(n INode) { v.events = append(v.events, vnEvent{false, n}) }

func vnSameNode(a, b interface{}) (eq bool) {
	// DotExpr.Y holds a LiteralExpr by value (documented); compare such nodes by content
	if la, ok := a.(LiteralExpr); ok {
		lb, ok2 := b.(LiteralExpr)
		return ok2 && la.TokenType == lb.TokenType && string(la.Data) == string(lb.Data)
	}
	defer func() {
		if recover() != nil {
			eq = false // values of other uncomparable struct types are never the same node
		}
	}()
	return a == b
}

var vnIfaces = []string{"IExpr", "IStmt", "IBinding"}
var vnPtrs = []string{"Var"}
var vnSkip = []string{"Scope"}

// vnCheckWalk: every statement, expression, binding and identifier node of the tree is
// entered exactly once, a child never before its parent; Exit exactly once per entered
// node that returned a visitor, after all its children.
func vnCheckWalk(ast *AST) {
	must := vNodes(ast, vnIfaces, vnPtrs, vnSkip)
	rec := &vnRecorder{}
	Walk(rec, ast)
	// balanced, properly nested Enter/Exit
	var stack []INode
	entered := 0
	for _, e := range rec.events {
		if e.enter {
			stack = append(stack, e.n)
			entered++
		} else {
			vAssert(len(stack) > 0 && vnSameNode(stack[len(stack)-1], e.n), "exit-not-matching-enter")
			stack = stack[:len(stack)-1]
		}
	}
	vAssert(len(stack) == 0, "enter-without-exit")
	// every node the tree contains was entered (in tree pre-order, so parents first)
	k := 0
	for _, m := range must {
		found := false
		for k < len(rec.events) {
			e := rec.events[k]
			k++
			if e.enter && vnSameNode(e.n, m) {
				found = true
				break
			}
		}
		if !found {
			// not found after the previous one: either missing or visited out of order
			seen := false
			for _, e := range rec.events {
				if e.enter && vnSameNode(e.n, m) {
					seen = true
				}
			}
			vAssert(seen, "node-not-visited")
			// order differs from field order (Walk visits Body before Cond etc.): accept, restart scan
			k = 0
		}
	}
	// nothing entered twice
	for i, e := range rec.events {
		if !e.enter {
			continue
		}
		if _, isVar := e.n.(*Var); isVar {
			continue // the same *Var is legitimately held by several nodes
		}
		switch e.n.(type) {
		case *EmptyStmt, *DebuggerStmt, *NewTargetExpr, *ImportMetaExpr:
			continue // zero-size nodes: distinct nodes may share one address natively
		}
		for j := i + 1; j < len(rec.events); j++ {
			vAssert(!(rec.events[j].enter && vnSameNode(rec.events[j].n, e.n)), "node-entered-twice")
		}
	}
	// identifier nodes: every position of the tree that holds a *Var (fields of type *Var and
	// interface fields holding one; scope tables and the Var.Link chain are not part of the tree)
	// is entered exactly once: the multiset of entered Vars equals the multiset of positions
	positions := vNodes(ast, nil, vnPtrs, []string{"Scope", "Var.Link"})
	nvar := 0
	for _, e := range rec.events {
		if _, isVar := e.n.(*Var); isVar && e.enter {
			nvar++
		}
	}
	vAssert(nvar == len(positions), "identifier-visits-differ-from-identifier-positions")
	for _, p := range positions {
		want, got := 0, 0
		for _, q := range positions {
			if vnSameNode(p, q) {
				want++
			}
		}
		for _, e := range rec.events {
			if e.enter && vnSameNode(e.n, p) {
				got++
			}
		}
		vAssert(want == got, "identifier-visit-count")
	}
	vReach("walk")
}

// VerifWalkW: Walk on every tree js.Parse returns for (ASCII) inputs of length 0..N.
func VerifWalkW() {
	n := vRange("n", 0, vParam("N", 2))
	b := vBytes("b", n)
	vnASCII(b)
	ast, err := Parse(parse.NewInputBytes(append(make([]byte, 0, n+1), b...)), Options{})
	if err != nil {
		return
	}
	vnCheckWalk(ast)
}

var vnWalkSketches = []string{
	"class A{[a]=b;#c=d;static e(){f}get [g](){}}",
	"x={[a]:b,c(){d},get [e](){},...f}",
	"for(a of b){c}for(var d in e);for(f;g;h)i",
	"if(a)b;else c;while(d)e;do f;while(g)",
	"switch(a){case b:c;default:d}try{e}catch(f){g}finally{h}",
	"a?.b?.[c]?.(d);new e(f);g`h${i}j`",
	"let[a,b=c,...d]=e,{f,g:h=i,...j}=k",
	"function*a(b,c=d,...e){yield f;return g}async()=>{await h}",
	"l:while(a){if(b)break l;continue l}throw c",
	"import a,{b as c}from'd';export{e as f};export default g",
	"(a,b)=>c;d=>e;with(f)g;debugger;h=i?j:k,l",
	// optional children present / absent, one arm at a time
	"{a}{a}{}",
	"var a;{a;{a}}{b;{b}}",
	"if(x){y=x}else{y=-x}if(z)w",
	"a=tag`abc`;b=c.d`e`;f=`g`;h=`${i}`;j=k`l${m}n${o}`",
	"for(;;)break;for(a;;)continue;for(;b;);for(;;c);",
	"switch(a){}switch(b){case c:case d:e;f}switch(g){default:}",
	"try{a}catch{b}try{c}finally{d}try{}catch(e){}",
	"function f(){return}function g(){return a}l:for(;;){break l}",
	"import'a';import b from'c';import*as d from'e';import f,*as g from'h';import{}from'i'",
	"export*from'a';export*as b from'c';export{d as e}from'f';export var g;export function h(){}export class i{}",
	"'use strict';a",
	"class A extends B{constructor(){super()}static{c}static d=e;f;#g(){this.#g}static async*[h](){}}",
	"a=class{};b=class C{};c=function(){};d=function e(){};f=async function*(){}",
	"function f(){new.target}import.meta;new a;new b();new c.d(e,...f)",
	"a=[,b,,...c,];d={e,f:g,[h]:i,...j,k(){},get l(){},set m(n){},async o(){},*p(){}}",
	"({a=1,b:{c}=d,...e}=f);[g=h,[i],...j]=k",
	"var[,a,,...b]=c,{d:[e]=f,[g]:h,...i}=j",
	"a?.b;c?.[d];e?.(f);g?.h`i`;j.k.l;m[n][o];p(q)(r)",
	"a++;--b;typeof c;void d;delete e.f;!g;~h;-i;+j;await k",
	"function*f(){yield;yield a;yield*b}",
	"async()=>a;async b=>{c};(d=e,{f},[g],...h)=>{};async function i(){for await(j of k);}",
	"a=b?c:d?e:f;g=(h,i);j=k**l**m;n=o??p;q=r in s;t=u instanceof v",
	"a:b:c;do;while(d);with(e){f}",
	"let a=1,b;const c=d;var e=function(){e};let f=g=>g(f)",
	"x=function f(a=f,{b}=a,[c]=b,...d){var e;function g(){}}",
}

// VerifWalkSketch: one program per arm of Walk's type switch; the k-th Enter returns nil.
func VerifWalkSketch() {
	i := vRange("sketch", 0, len(vnWalkSketches)-1)
	src := []byte(vnWalkSketches[i])
	ast, err := Parse(parse.NewInputBytes(src), Options{})
	vAssert(err == nil, "sketch-rejected")
	if err != nil {
		return
	}
	vnCheckWalk(ast)
	// pruning: returning nil at the k-th Enter skips exactly that node's subtree
	full := &vnRecorder{}
	Walk(full, ast)
	k := vRange("stop", 1, full.enters)
	pr := &vnRecorder{stopAt: k}
	Walk(pr, ast)
	// the k-th entered node in the full walk, and the number of events inside its subtree
	idx, depth, sub := -1, 0, 0
	cnt := 0
	for j, e := range full.events {
		if e.enter {
			cnt++
			if cnt == k {
				idx = j
			}
		}
		if idx >= 0 && j >= idx {
			if e.enter {
				depth++
			} else {
				depth--
			}
			if depth == 0 {
				sub = j - idx + 1
				break
			}
		}
	}
	vAssert(idx >= 0 && sub >= 2, "stop-node")
	// pruned walk = full walk minus the subtree events, keeping only the Enter of the stop node
	want := append([]vnEvent(nil), full.events[:idx+1]...)
	want = append(want, full.events[idx+sub:]...)
	vAssert(len(pr.events) == len(want), "pruned-walk-length")
	for j := range want {
		if j < len(pr.events) {
			vAssert(pr.events[j].enter == want[j].enter && vnSameNode(pr.events[j].n, want[j].n), "pruned-walk-differs")
		}
	}
	vReach("prune")
	var w bytes.Buffer
	ast.JS(&w)
}
