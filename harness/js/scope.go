//go:build verif

package js

import (
	"bytes"

	"github.com/tdewolff/parse/v2"
)

// A skeleton is a program shape in which every identifier site is a hole; the same
// description renders the JS text and drives an independent lexical-scope resolver.
type vnS struct {
	k      string // var let const use block func fexpr arrow catch forlet class
	site   int    // identifier site of the declaration / use (-1 if none)
	params []int  // parameter sites (func, fexpr, arrow)
	defs   []int  // default-value use sites, parallel to params (-1 = no default)
	body   []vnS
	rest   bool // the last parameter is a rest parameter (...p)
}

func vnRenderJS(out []byte, list []vnS, names []byte) []byte {
	for _, s := range list {
		id := func(i int) []byte { return []byte{names[i]} }
		params := func() []byte {
			var p []byte
			for j, ps := range s.params {
				if j > 0 {
					p = append(p, ',')
				}
				if s.rest && j == len(s.params)-1 {
					p = append(p, "..."...)
				}
				p = append(p, names[ps])
				if j < len(s.defs) && s.defs[j] >= 0 {
					p = append(p, '=')
					p = append(p, names[s.defs[j]])
				}
			}
			return p
		}
		switch s.k {
		case "var":
			out = append(append(append(out, "var "...), id(s.site)...), ';')
		case "let":
			out = append(append(append(out, "let "...), id(s.site)...), ';')
		case "const":
			out = append(append(append(out, "const "...), id(s.site)...), "=0;"...)
		case "use":
			out = append(append(out, id(s.site)...), ';')
		case "suse": // the name used as a shorthand property: ({a});
			out = append(append(append(out, "({"...), id(s.site)...), "});"...)
		case "cexpr": // class expression with a name, the body refers to a name: (class N{m(){U}});
			out = append(append(append(out, "(class "...), id(s.site)...), "{m(){"...)
			out = vnRenderJS(out, s.body, names)
			out = append(out, "}});"...)
		case "switch": // switch(U){case 0: body}: the discriminant is outside the case block's scope
			out = append(append(append(out, "switch("...), id(s.site)...), "){case 0:"...)
			out = vnRenderJS(out, s.body, names)
			out = append(out, '}')
		case "pmeth": // an object literal with a method inside parentheses (a possible arrow head): z=({m(){body}});
			out = append(out, "z=({m(){"...)
			out = vnRenderJS(out, s.body, names)
			out = append(out, "}});"...)
		case "ause": // the name as the first element of an array literal: [a];
			out = append(append(append(out, '['), id(s.site)...), ']', ';')
		case "ouse": // the name as the value of an object literal property: ({k:a});
			out = append(append(append(out, "({k:"...), id(s.site)...), "});"...)
		case "sblock": // class declaration with a static block
			out = append(append(append(out, "class "...), id(s.site)...), "{static{"...)
			out = vnRenderJS(out, s.body, names)
			out = append(out, "}}"...)
		case "puse": // a parenthesised expression that looks like an arrow head
			out = append(append(append(out, '('), id(s.site)...), ')', ';')
		case "arrow1": // x => {body}
			out = append(append(append(out, '('), id(s.params[0])...), "=>{"...)
			out = vnRenderJS(out, s.body, names)
			out = append(out, "});"...)
		case "arrow0": // a bare arrow as the right-hand side of an assignment: z=x=>{body};
			out = append(append(append(out, "z="...), id(s.params[0])...), "=>{"...)
			out = vnRenderJS(out, s.body, names)
			out = append(out, "};"...)
		case "class":
			out = append(append(append(out, "class "...), id(s.site)...), "{}"...)
		case "block":
			out = append(out, '{')
			out = vnRenderJS(out, s.body, names)
			out = append(out, '}')
		case "func":
			out = append(append(append(out, "function "...), id(s.site)...), '(')
			out = append(append(out, params()...), "){"...)
			out = vnRenderJS(out, s.body, names)
			out = append(out, '}')
		case "fexpr":
			out = append(append(append(out, "(function "...), id(s.site)...), '(')
			out = append(append(out, params()...), "){"...)
			out = vnRenderJS(out, s.body, names)
			out = append(out, "});"...)
		case "arrow":
			out = append(out, "(("...)
			out = append(append(out, params()...), ")=>{"...)
			out = vnRenderJS(out, s.body, names)
			out = append(out, "});"...)
		case "catch":
			out = append(append(append(out, "try{}catch("...), id(s.site)...), "){"...)
			out = vnRenderJS(out, s.body, names)
			out = append(out, '}')
		case "forlet":
			out = append(append(append(out, "for(let "...), id(s.site)...), ';')
			if len(s.defs) > 0 { // condition and update expressions referring to names
				out = append(out, id(s.defs[0])...)
			}
			out = append(out, ';')
			if len(s.defs) > 1 {
				out = append(out, id(s.defs[1])...)
			}
			out = append(out, "){"...)
			out = vnRenderJS(out, s.body, names)
			out = append(out, '}')
		}
	}
	return out
}

// ---- reference resolver ----

type vnDecl struct {
	name byte
	kind int // 1 var-like (var, function), 2 lexical (let const class), 3 param, 4 catch param, 5 function-expression name
	id   int // binding id
}

type vnScope struct {
	parent *vnScope
	isFunc bool
	decls  []vnDecl
}

type vnResolver struct {
	names   []byte
	binding []int // site -> binding id (>= 0), or -1-name for free names
	nextID  int
	err     bool
}

func (s *vnScope) find(name byte) *vnDecl {
	for i := len(s.decls) - 1; i >= 0; i-- {
		if s.decls[i].name == name {
			return &s.decls[i]
		}
	}
	return nil
}

func (r *vnResolver) declare(sc *vnScope, site int, kind int) {
	name := r.names[site]
	target := sc
	if kind == 1 {
		// var-like: hoist to the function scope; a lexical of the same name on the way is an early error
		for {
			if d := target.find(name); d != nil && d.kind == 2 {
				r.err = true
			}
			if target.isFunc {
				break
			}
			target = target.parent
		}
		if d := target.find(name); d != nil {
			if d.kind == 2 {
				r.err = true
			}
			if d.kind != 5 {
				r.binding[site] = d.id
				return
			}
		}
	} else if kind == 2 {
		if d := target.find(name); d != nil && d.kind != 5 {
			r.err = true // lexical redeclaration, or lexical over var/param/catch param in the same scope
			r.binding[site] = d.id
			return
		}
	} else {
		if d := target.find(name); d != nil && d.kind == kind {
			r.err = true // duplicate parameter
		}
	}
	id := r.nextID
	r.nextID++
	if target.isFunc && target.parent != nil && len(target.parent.decls) == 1 && target.parent.decls[0].kind == 5 && target.parent.decls[0].name == name {
		// a top-level declaration named like the enclosing function expression shadows that name
		// in its entire scope: sharing one Var is unobservable (the library does so deliberately)
		id = target.parent.decls[0].id
		r.nextID--
	}
	target.decls = append(target.decls, vnDecl{name, kind, id})
	r.binding[site] = id
}

// hoist declares, before any use is resolved, everything a scope's statements declare in it.
func (r *vnResolver) hoist(sc *vnScope, list []vnS) {
	for _, s := range list {
		switch s.k {
		case "var":
			r.declare(sc, s.site, 1)
		case "func":
			r.declare(sc, s.site, 1)
		case "let", "const", "class", "sblock":
			r.declare(sc, s.site, 2)
		case "block":
			// var-like declarations inside nested blocks are hoisted when that block is entered
		}
	}
}

func (r *vnResolver) use(sc *vnScope, site int) {
	name := r.names[site]
	for s := sc; s != nil; s = s.parent {
		if d := s.find(name); d != nil {
			r.binding[site] = d.id
			return
		}
	}
	r.binding[site] = -1 - int(name)
}

func (r *vnResolver) function(outer *vnScope, s vnS) {
	fs := &vnScope{parent: outer, isFunc: true}
	for _, p := range s.params {
		r.declare(fs, p, 3)
	}
	for j := range s.params {
		if j < len(s.defs) && s.defs[j] >= 0 {
			// ECMAScript: a default-value expression sees every parameter of the list (TDZ applies at run time)
			r.use(fs, s.defs[j])
		}
	}
	r.scope(fs, s.body)
}

// varsFirst declares the var-like declarations of nested blocks in their function scope before
// uses are resolved (hoisting through sibling and nested blocks).
func (r *vnResolver) varsFirst(sc *vnScope, list []vnS) {
	for _, s := range list {
		switch s.k {
		case "block", "catch", "forlet":
			r.prescan(sc, s)
		}
	}
}

func (r *vnResolver) prescan(sc *vnScope, s vnS) {}

func (r *vnResolver) scope(sc *vnScope, list []vnS) {
	r.hoist(sc, list)
	// pre-create nested block scopes so that var-like declarations in them are hoisted before uses
	inner := make([]*vnScope, len(list))
	for i, s := range list {
		switch s.k {
		case "block", "switch":
			inner[i] = &vnScope{parent: sc}
			r.hoistVars(inner[i], s.body)
		case "catch":
			inner[i] = &vnScope{parent: sc}
			r.declare(inner[i], s.site, 4)
			r.hoistVars(inner[i], s.body)
		case "forlet":
			head := &vnScope{parent: sc}
			r.declare(head, s.site, 2)
			inner[i] = &vnScope{parent: head} // the loop body is a block of its own
			r.hoistVars(inner[i], s.body)
		}
	}
	for i, s := range list {
		switch s.k {
		case "use", "puse", "suse", "ause", "ouse":
			r.use(sc, s.site)
		case "pmeth":
			r.function(sc, vnS{k: "func", site: -1, body: s.body})
		case "cexpr":
			ns := &vnScope{parent: sc}
			r.declare(ns, s.site, 5)
			r.function(ns, vnS{k: "func", site: -1, body: s.body})
		case "sblock": // a static block is its own var scope (like a function body)
			r.function(sc, vnS{k: "func", site: -1, body: s.body})
		case "block", "catch", "forlet", "switch":
			if s.k == "forlet" {
				for _, d := range s.defs {
					r.use(inner[i].parent, d) // condition / update live in the loop-head scope
				}
			}
			if s.k == "switch" {
				r.use(sc, s.site) // the discriminant is evaluated in the enclosing scope
			}
			r.scopeBody(inner[i], s.body)
		case "func":
			r.function(sc, s)
		case "arrow", "arrow1", "arrow0":
			r.function(sc, s)
		case "fexpr":
			ns := &vnScope{parent: sc}
			r.declare(ns, s.site, 5)
			r.function(ns, s)
		}
	}
}

// hoistVars: declare (recursively) the var-like declarations found in a block and its nested
// blocks; lexical declarations of that block are declared too so that conflicts are seen.
func (r *vnResolver) hoistVars(sc *vnScope, list []vnS) {
	r.hoist(sc, list)
}

func (r *vnResolver) scopeBody(sc *vnScope, list []vnS) {
	// declarations of this block were made by hoistVars; now nested scopes and uses
	inner := make([]*vnScope, len(list))
	for i, s := range list {
		switch s.k {
		case "block", "switch":
			inner[i] = &vnScope{parent: sc}
			r.hoistVars(inner[i], s.body)
		case "catch":
			inner[i] = &vnScope{parent: sc}
			r.declare(inner[i], s.site, 4)
			r.hoistVars(inner[i], s.body)
		case "forlet":
			head := &vnScope{parent: sc}
			r.declare(head, s.site, 2)
			inner[i] = &vnScope{parent: head}
			r.hoistVars(inner[i], s.body)
		}
	}
	for i, s := range list {
		switch s.k {
		case "use", "puse", "suse", "ause", "ouse":
			r.use(sc, s.site)
		case "pmeth":
			r.function(sc, vnS{k: "func", site: -1, body: s.body})
		case "cexpr":
			ns := &vnScope{parent: sc}
			r.declare(ns, s.site, 5)
			r.function(ns, vnS{k: "func", site: -1, body: s.body})
		case "sblock":
			r.function(sc, vnS{k: "func", site: -1, body: s.body})
		case "block", "catch", "forlet", "switch":
			if s.k == "forlet" {
				for _, d := range s.defs {
					r.use(inner[i].parent, d)
				}
			}
			if s.k == "switch" {
				r.use(sc, s.site)
			}
			r.scopeBody(inner[i], s.body)
		case "func", "arrow", "arrow1", "arrow0":
			r.function(sc, s)
		case "fexpr":
			ns := &vnScope{parent: sc}
			r.declare(ns, s.site, 5)
			r.function(ns, s)
		}
	}
}

func vnU(site int) vnS               { return vnS{k: "use", site: site} }
func vnD(k string, site int) vnS     { return vnS{k: k, site: site} }
func vnBlk(body ...vnS) vnS          { return vnS{k: "block", site: -1, body: body} }
func vnFn(site int, params []int, body ...vnS) vnS {
	return vnS{k: "func", site: site, params: params, body: body}
}

// the skeleton list: (number of sites, program shape)
var vnSkeletons = []struct {
	sites int
	prog  []vnS
}{
	{3, []vnS{vnU(0), vnD("var", 1), vnU(2)}},                                           // use before var
	{3, []vnS{vnBlk(vnU(0), vnD("var", 1)), vnU(2)}},                                      // var hoisted out of a block
	{4, []vnS{vnD("let", 0), vnBlk(vnD("let", 1), vnU(2)), vnU(3)}},                         // block shadowing
	{4, []vnS{vnFn(0, []int{1}, vnU(2)), vnU(3)}},                                       // parameter
	{4, []vnS{vnD("var", 0), vnFn(1, nil, vnU(2), vnD("var", 3))}},                        // var inside function shadows outer
	{4, []vnS{{k: "catch", site: 0, body: []vnS{vnU(1), vnD("var", 2)}}, vnU(3)}},       // catch parameter and var
	{4, []vnS{{k: "fexpr", site: 0, params: []int{1}, body: []vnS{vnU(2)}}, vnU(3)}},  // named function expression
	{4, []vnS{{k: "arrow", site: -1, params: []int{0}, body: []vnS{vnU(1)}}, vnU(2), vnD("let", 3)}}, // arrow parameter
	{4, []vnS{{k: "forlet", site: 0, body: []vnS{vnD("let", 1), vnU(2)}}, vnU(3)}},      // loop head scope
	{4, []vnS{vnBlk(vnBlk(vnD("var", 0))), vnBlk(vnU(1)), vnD("let", 2), vnU(3)}},               // var through nested blocks, let conflict
	{4, []vnS{{k: "func", site: 0, params: []int{1}, defs: []int{2}, body: []vnS{vnU(3)}}}}, // default value
	{4, []vnS{vnD("class", 0), vnBlk(vnD("const", 1), vnU(2)), vnU(3)}},                     // class / const
	{5, []vnS{vnFn(0, nil, vnBlk(vnFn(1, nil, vnU(2)), vnU(3))), vnU(4)}},                     // function in block in function
	{4, []vnS{{k: "func", site: 0, params: []int{1}, defs: []int{2}, body: []vnS{vnU(3)}}}}, // 13: default value naming its own parameter
	{6, []vnS{vnD("var", 0), {k: "func", site: 1, params: []int{2}, defs: []int{3}, body: []vnS{vnU(4), vnD("var", 5)}}}}, // 14: default refers outward, body uses a later local var
	{6, []vnS{vnD("var", 0), {k: "forlet", site: 1, body: []vnS{vnU(2), vnD("let", 3), vnBlk(vnU(4))}}, vnU(5)}},       // 15: loop body with use before let
	{5, []vnS{vnD("var", 0), {k: "arrow", site: -1, params: []int{1}, defs: []int{2}, body: []vnS{vnU(3), vnD("let", 4)}}}}, // 16: arrow default + later let
	{6, []vnS{vnD("var", 0), {k: "func", site: 1, params: []int{2}, defs: []int{3}, body: []vnS{vnD("var", 4), {k: "puse", site: 5}}}}}, // 17: parenthesised use after a local var
	{5, []vnS{vnD("let", 0), {k: "puse", site: 1}, vnBlk(vnD("let", 2), vnS{k: "puse", site: 3}), vnU(4)}},                        // 18: parenthesised uses in nested scopes
	{4, []vnS{vnD("var", 0), {k: "arrow1", site: -1, params: []int{1}, body: []vnS{vnU(2)}}, vnU(3)}},                           // 19: x => body
	{6, []vnS{vnD("var", 0), {k: "forlet", site: 1, body: []vnS{vnD("let", 2), {k: "puse", site: 3}}}, {k: "puse", site: 4}, vnU(5)}}, // 20
	{4, []vnS{vnD("var", 0), vnBlk(vnU(1), vnBlk(vnU(2))), vnU(3)}},                                                          // 21: reference two scopes below its declaration
	{5, []vnS{vnBlk(vnU(0)), vnBlk(vnU(1), vnBlk(vnU(2))), vnD("var", 3), vnU(4)}},                                            // 22: uses before a hoisted var, nested
	{6, []vnS{vnD("var", 0), {k: "forlet", site: 1, defs: []int{2, 3}, body: []vnS{vnD("let", 4), vnU(5)}}}},                  // 23: loop condition/update vs a let in the body
	{5, []vnS{vnD("let", 0), vnBlk(vnU(1), vnBlk(vnU(2), vnBlk(vnU(3)))), vnU(4)}},                                            // 24: three scopes below
	{5, []vnS{{k: "forlet", site: 0, defs: []int{1, 2}, body: []vnS{vnU(3)}}, vnU(4)}},                                       // 25: loop head name used in condition, update and body
	{7, []vnS{vnD("var", 0), {k: "func", site: 1, params: []int{2, 4}, defs: []int{3}, rest: true, body: []vnS{vnD("var", 5), vnU(6)}}}}, // 26: default value + rest parameter + body var (sites in source order)
	{4, []vnS{vnD("var", 0), vnFn(1, nil, vnS{k: "suse", site: 2}), {k: "suse", site: 3}}},                                          // 27: shorthand properties
	{4, []vnS{vnD("let", 0), {k: "cexpr", site: 1, body: []vnS{vnU(2)}}, vnU(3)}},                                                   // 28: class expression name
	{5, []vnS{vnD("let", 0), {k: "sblock", site: 1, body: []vnS{vnD("var", 2), vnU(3)}}, vnU(4)}},                                   // 29: var in a class static block
	{5, []vnS{vnD("var", 0), {k: "pmeth", site: -1, body: []vnS{{k: "ause", site: 1}, {k: "ouse", site: 2}, vnBlk(vnS{k: "ause", site: 3})}}, vnU(4)}}, // 30: literals inside a method inside a parenthesised object literal
	{5, []vnS{vnD("var", 0), vnBlk(vnU(1)), {k: "arrow1", site: -1, params: []int{2}, body: []vnS{vnU(3)}}, vnU(4)}},              // 31: x => body where x is known from a sibling block
	{5, []vnS{vnD("var", 0), vnBlk(vnU(1)), {k: "arrow0", site: -1, params: []int{2}, body: []vnS{vnU(3)}}, vnU(4)}},              // 32: z = x => body (not parenthesised), x known before
	{4, []vnS{vnU(0), {k: "arrow0", site: -1, params: []int{1}, body: []vnS{vnU(2)}}, vnU(3)}},                                     // 33: the same with a name that was only used before
	{3, []vnS{{k: "fexpr", site: 0, body: []vnS{vnD("let", 1), vnD("let", 2)}}}},                                                 // 34: redeclaration inside a named function expression, also of its own name
	{5, []vnS{vnD("var", 0), {k: "switch", site: 1, body: []vnS{vnD("let", 2), vnU(3)}}, vnU(4)}},                                // 35: switch discriminant vs a let in a case clause
	{5, []vnS{vnFn(0, nil, vnBlk(vnFn(1, nil)), vnBlk(vnFn(2, nil)), vnU(3)), vnU(4)}},                                            // 36: function declarations in sibling blocks, used outside the blocks
	{4, []vnS{vnFn(0, nil, vnD("let", 1), vnD("var", 2)), vnU(3)}},                                                               // 37: let and var of one name inside a function named the same
}

// VerifScope: all identifier occurrences that denote the same binding share one Var;
// different bindings never share one; free names are undeclared variables; after renaming
// every declared Var the program is alpha-equivalent; Uses counts the printed places.
func VerifScope() {
	ski := vRange("skeleton", 0, len(vnSkeletons)-1)
	sk := vnSkeletons[ski]
	names := vBytes("names", sk.sites)
	for i := range names {
		nc := names[i]
		vAssume(nc == 'a' || nc == 'b' || nc == 'c')
	}
	if ski == 10 {
		vAssume(names[2] != names[1]) // the self-referencing default is skeleton 13
	}
	if ski == 13 {
		vAssume(names[2] == names[1])
	}
	if ski == 26 {
		vAssume(names[3] != names[4]) // a default that names a LATER parameter always throws (TDZ): not modelled
	}
	src := vnRenderJS(nil, sk.prog, names)
	ref := &vnResolver{names: names, binding: make([]int, sk.sites)}
	ref.scope(&vnScope{isFunc: true}, sk.prog)
	ast, err := Parse(parse.NewInputBytes(append(make([]byte, 0, len(src)+1), src...)), Options{})
	if ref.err {
		// the reference sees a redeclaration conflict: must be rejected (C03 duplicate-declaration clause)
		vAssert(err != nil, "conflicting-declarations-accepted")
		vReach("conflict")
		return
	}
	vAssert(err == nil, "valid-program-rejected")
	if err != nil {
		return
	}
	// rename every declared variable to a fresh two-letter name
	vars := vNodes(ast, nil, []string{"Var"}, nil)
	fresh := 0
	var renamed []*Var
	for _, x := range vars {
		v := x.(*Var)
		if v.Link != nil || v.Decl == NoDecl {
			continue
		}
		dup := false
		for _, w := range renamed {
			if w == v {
				dup = true
			}
		}
		if dup {
			continue
		}
		v.Data = []byte{'V', byte('A' + fresh)}
		fresh++
		renamed = append(renamed, v)
	}
	var w bytes.Buffer
	ast.JS(&w)
	out := append([]byte(nil), w.Bytes()...)
	vObserve("renamed", out)
	// identifier sites of the printed program, in source order
	l := NewLexer(parse.NewInputBytes(append(make([]byte, 0, len(out)+1), out...)))
	var printed [][]byte
	var keyed []bool // the printed identifier is the value of an explicit `key: value` property
	lastIdent, pendingKey := false, false
	for i := 0; i < 10*len(out)+4; i++ {
		tt, data := l.Next()
		if tt == ErrorToken {
			break
		}
		if tt == WhitespaceToken || tt == LineTerminatorToken {
			continue
		}
		if tt == ColonToken && lastIdent {
			// `name:` is a property key (skeletons have no labels): not an identifier site
			printed = printed[:len(printed)-1]
			keyed = keyed[:len(keyed)-1]
			pendingKey = true
			lastIdent = false
			continue
		}
		lastIdent = false
		if tt == IdentifierToken || tt >= AsToken && tt <= YieldToken {
			if string(data) == "K" || string(data) == "m" || string(data) == "static" || string(data) == "z" || string(data) == "k" {
				continue // fixed names of the class skeletons
			}
			printed = append(printed, append([]byte(nil), data...))
			keyed = append(keyed, pendingKey)
			lastIdent = true
		}
		pendingKey = false
	}
	vAssert(len(printed) == sk.sites, "identifier-site-count")
	if len(printed) != sk.sites {
		return
	}
	// a shorthand property whose variable was renamed must be printed as `key: newname`
	// (the property key is not an identifier reference and keeps its spelling)
	si := 0
	var walkS func(list []vnS)
	walkS = func(list []vnS) {
		for _, st := range list {
			if st.k == "suse" {
				vAssert(keyed[st.site] == (len(printed[st.site]) == 2), "shorthand-property-key-follows-renaming")
				si++
			}
			walkS(st.body)
		}
	}
	walkS(sk.prog)
	for i := 0; i < sk.sites; i++ {
		declared := len(printed[i]) == 2
		vAssert(declared == (ref.binding[i] >= 0), "declared-vs-free")
		for j := i + 1; j < sk.sites; j++ {
			same := string(printed[i]) == string(printed[j])
			vAssert(same == (ref.binding[i] == ref.binding[j]), "binding-partition-differs")
		}
	}
	// Uses equals the number of places the name is printed
	for _, v := range renamed {
		cnt := 0
		for _, p := range printed {
			if string(p) == string(v.Data) {
				cnt++
			}
		}
		vAssert(int(v.Uses) == cnt, "uses-count")
	}
	vReach("resolved")
}
