//go:build verif

package js

import "github.com/tdewolff/parse/v2"

// VerifInterleave: two lexer instances on private data stepped in an order chosen by
// solver schedule bits observe exactly what they observe when run alone.
func VerifInterleave() {
	n1 := vRange("n1", 0, vParam("N", 2))
	n2 := vRange("n2", 0, vParam("N2", vParam("N", 2)))
	b1, b2 := vBytes("b1", n1), vBytes("b2", n2)
	l1 := NewLexer(parse.NewInputBytes(append(make([]byte, 0, n1+1), b1...)))
	l2 := NewLexer(parse.NewInputBytes(append(make([]byte, 0, n2+1), b2...)))
	s1 := NewLexer(parse.NewInputBytes(append(make([]byte, 0, n1+1), b1...)))
	s2 := NewLexer(parse.NewInputBytes(append(make([]byte, 0, n2+1), b2...)))
	for step := 0; step < vParam("STEPS", 4); step++ {
		if vRange("sched", 0, 1) == 0 {
			tt, d := l1.Next()
			st, sd := s1.Next()
			vAssert(tt == st && string(d) == string(sd), "instance-1-disturbed")
		} else {
			tt, d := l2.Next()
			st, sd := s2.Next()
			vAssert(tt == st && string(d) == string(sd), "instance-2-disturbed")
		}
	}
	vReach("interleave")
}

var vnHistPre = []string{"", "/*!a*/", "/*!a*/x;", "/*!a*//*!b*/", "x=`a${b}c`;", "class A{#p;m(){this.#p}}", "l:for(;;)break l;", "{{{{{{{{{{{{a}}}}}}}}}}}}", "function f(){if(a){for(;;){while(b){try{c}catch(d){switch(e){case 1:{{{{g}}}}}}}}}}"}

func vnParseJS(src []byte, o Options) (string, bool) {
	ast, err := Parse(parse.NewInputBytes(append(make([]byte, 0, len(src)+1), src...)), o)
	if err != nil {
		return "", false
	}
	return ast.JSString(), true
}

// VerifParseHistory: results do not depend on what was parsed before in the same process.
// Program 1 is parsed and its tree kept; program 2 is parsed; the kept tree still prints the
// same text, and both results equal the ones obtained first in the path (before any other call).
func VerifParseHistory() {
	mk := func(tag string, max int) []byte {
		pre := vnHistPre[vRange(tag+"pre", 0, len(vnHistPre)-1)]
		k := vRange(tag+"n", 0, max)
		b := vBytes(tag, k)
		vnASCII(b)
		return append([]byte(pre), b...)
	}
	src1, src2 := mk("p", vParam("NP", 0)), mk("q", vParam("N", 1))
	o := Options{}
	first1, ok1 := vnParseJS(src1, o)
	first2, ok2 := vnParseJS(src2, o)
	// the history under test
	ast1, err1 := Parse(parse.NewInputBytes(append(make([]byte, 0, len(src1)+1), src1...)), o)
	vAssert((err1 == nil) == ok1, "parse-result-depends-on-history")
	before := ""
	if err1 == nil {
		before = ast1.JSString()
		vAssert(before == first1, "parse-result-depends-on-history")
	}
	again2, ok2b := vnParseJS(src2, o)
	vAssert(ok2b == ok2 && again2 == first2, "parse-result-depends-on-history")
	if err1 == nil {
		vAssert(ast1.JSString() == before, "earlier-tree-changed-by-later-parse")
	}
	vReach("history")
}
