//go:build verif

package js

import (
	"bytes"
	"io"

	"github.com/tdewolff/parse/v2"
)

var vnErrPosPrograms = []string{
	"a=1;b=2",
	"if(a)b;c",
	"x=[1,2];y",
	"f(a);g(b)",
	"a;{b}c",
	"for(;;)a;b",
	"function f(){a}g",
	"a=b+c*d",
	"x={a:1};y",
	"a?b:c;d",
}

// VerifErrPos: a single illegal character inserted between two tokens of a valid single-line
// program is reported by js.Parse at exactly that character (line 1, column = offset+1).
func VerifErrPos() {
	src := []byte(vnErrPosPrograms[vRange("program", 0, len(vnErrPosPrograms)-1)])
	// token boundaries of the original program
	bd := make([]bool, len(src)+1)
	l := NewLexer(parse.NewInputBytes(append(make([]byte, 0, len(src)+1), src...)))
	pos := 0
	for i := 0; i < len(src)+2; i++ {
		bd[pos] = true
		tt, d := l.Next()
		if tt == ErrorToken {
			break
		}
		pos += len(d)
	}
	bd[len(src)] = true
	k := vRange("k", 0, len(src))
	vAssume(bd[k])
	bad := vByte("bad")
	vAssume(bad == '@' || bad == 0x01 || bad == 0x7F)
	doc := append(append(append([]byte(nil), src[:k]...), bad), src[k:]...)
	_, err := Parse(parse.NewInputBytes(append(make([]byte, 0, len(doc)+1), doc...)), Options{})
	vAssert(err != nil, "illegal-character-accepted")
	if err == nil {
		return
	}
	perr, ok := err.(*parse.Error)
	vAssert(ok, "error-not-a-parse-error")
	if ok {
		vObserve("err", perr.Line, perr.Column)
		vAssert(perr.Line == 1, "error-line")
		vAssert(perr.Column >= 1 && perr.Column <= len(doc)+1, "error-outside-input")
		vAssert(perr.Column == k+1, "error-not-at-inserted-character")
	}
	vReach("errpos")
}

// VerifLexErrPos: the JS lexer may be driven on after an error. Every ErrorToken that steps
// over an illegal character carries a *parse.Error whose line, column and context are the ones
// Position computes for that character; a non-error token never leaves a *parse.Error behind;
// at the end of the input Err() is io.EOF and not the position of an earlier error.
func VerifLexErrPos() {
	n := vRange("n", 0, vParam("N", 3))
	b := vBytes("b", n)
	for i := range b {
		c := b[i]
		vAssume(c == 'a' || c == ' ' || c == '\n' || c == '@' || c == '#' || c == 0x01 || c == ';' || c == '1' || c == '\\')
	}
	src := append([]byte(nil), b...)
	z := parse.NewInputBytes(append(make([]byte, 0, n+1), b...))
	l := NewLexer(z)
	for step := 0; step < 2*n+3; step++ {
		tt, data := l.Next()
		if tt != ErrorToken {
			_, isPerr := l.Err().(*parse.Error)
			vAssert(!isPerr, "stale-error-after-valid-token")
			continue
		}
		if len(data) == 0 && z.Offset() >= n {
			// the end of the input: io.EOF now, or one fresh error (e.g. identifier directly after
			// a number) and io.EOF on the next call; never the position of an earlier error again
			if l.Err() != io.EOF {
				tt, _ = l.Next()
				vAssert(tt == ErrorToken && l.Err() == io.EOF, "lexer-end-reports-earlier-error")
			}
			vReach("end")
			return
		}
		stop := z.Offset() - 1 // the illegal (ASCII) character is the last byte stepped over
		perr, ok := l.Err().(*parse.Error)
		vAssert(ok, "error-token-without-parse-error")
		if ok && len(data) > 0 {
			line, col, ctx := parse.Position(bytes.NewBuffer(append([]byte(nil), src...)), stop)
			vAssert(perr.Line == line && perr.Column == col, "lexer-error-position")
			vAssert(perr.Context == ctx, "lexer-error-context")
			vReach("illegal")
		}
	}
}
