//go:build verif

package js

import (
	"github.com/tdewolff/parse/v2"
)

var vnErrPosPrograms = []string{
	"a=1;b=2",
	"if(a)b;c",
	"x=[1,2];y",
	"f(a);g(b)",
	"a;{b}c",
	"for(;;)a;b",
	"function f(){a}g",
	"a=b+c*d",
	"x={a:1};y",
	"a?b:c;d",
}

// VerifErrPos: a single illegal character inserted between two tokens of a valid single-line
// program is reported by js.Parse at exactly that character (line 1, column = offset+1).
func VerifErrPos() {
	src := []byte(vnErrPosPrograms[vRange("program", 0, len(vnErrPosPrograms)-1)])
	// token boundaries of the original program
	bd := make([]bool, len(src)+1)
	l := NewLexer(parse.NewInputBytes(append(make([]byte, 0, len(src)+1), src...)))
	pos := 0
	for i := 0; i < len(src)+2; i++ {
		bd[pos] = true
		tt, d := l.Next()
		if tt == ErrorToken {
			break
		}
		pos += len(d)
	}
	bd[len(src)] = true
	k := vRange("k", 0, len(src))
	vAssume(bd[k])
	bad := vByte("bad")
	vAssume(bad == '@' || bad == 0x01 || bad == 0x7F)
	doc := append(append(append([]byte(nil), src[:k]...), bad), src[k:]...)
	_, err := Parse(parse.NewInputBytes(append(make([]byte, 0, len(doc)+1), doc...)), Options{})
	vAssert(err != nil, "illegal-character-accepted")
	if err == nil {
		return
	}
	perr, ok := err.(*parse.Error)
	vAssert(ok, "error-not-a-parse-error")
	if ok {
		vObserve("err", perr.Line, perr.Column)
		vAssert(perr.Line == 1, "error-line")
		vAssert(perr.Column >= 1 && perr.Column <= len(doc)+1, "error-outside-input")
		vAssert(perr.Column == k+1, "error-not-at-inserted-character")
	}
	vReach("errpos")
}
