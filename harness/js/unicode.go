//go:build verif

package js

import (
	"io"
	"unicode"
	"unicode/utf8"

	"github.com/tdewolff/parse/v2"
)

// Non-ASCII lexical grammar (C06 "identifiers with Unicode letters", whitespace, line terminators).
// The input is  a · P · b · Q · c  where a, b, c are 0..1 symbolic ASCII bytes from a small
// alphabet and P, Q are solver-chosen concrete code points, one per Unicode class that the
// ECMAScript lexical grammar distinguishes. The expected token sequence comes from a mini lexer
// over the class string (reference below), the classes of the code points from Go's unicode
// tables through the *definition* in ECMA-262 (ID_Start / ID_Continue / Zs / line terminators).

var vnUniPieces = []string{
	"\u00e9",     // Ll (2 bytes)
	"\u03c0",     // Ll
	"\u2102",     // Lu (3 bytes)
	"\u16ee",     // Nl
	"\u2118",     // Other_ID_Start
	"\u01c5",     // Lt
	"\u02b0",     // Lm
	"\u05d0",     // Lo
	"\U0001d4d0", // Lu (4 bytes)
	"\u0301",     // Mn: continue only
	"\u0903",     // Mc: continue only
	"\u0663",     // Nd: continue only
	"\u203f",     // Pc: continue only
	"\u00b7",     // Other_ID_Continue
	"\u200c",     // ZWNJ: continue only
	"\u200d",     // ZWJ: continue only
	"\u00a0",     // NBSP: whitespace
	"\ufeff",     // BOM: whitespace
	"\u2003",     // Zs
	"\u3000",     // Zs
	"\u2028",     // line separator
	"\u2029",     // paragraph separator
	"\u20ac",     // Sc: neither
	"\u00ab",     // Pi: neither
	"\U0001f600", // So (4 bytes): neither
	"\u0085",     // NEL: neither a JS line terminator nor whitespace
}

// class of a code point per ECMA-262 12.2, 12.3, 12.7: 'L' ID_Start, 'C' ID_Continue only,
// 'W' WhiteSpace, 'T' LineTerminator, ';' the semicolon punctuator, 'O' anything else
func refRuneClass(r rune) byte {
	switch {
	case r == '$' || r == '_':
		return 'L'
	case r == '\t' || r == '\v' || r == '\f' || r == ' ' || r == 0xA0 || r == 0xFEFF || unicode.Is(unicode.Zs, r):
		return 'W'
	case r == '\n' || r == '\r' || r == 0x2028 || r == 0x2029:
		return 'T'
	case r == ';':
		return ';'
	case unicode.IsLetter(r) || unicode.Is(unicode.Nl, r) || unicode.Is(unicode.Other_ID_Start, r):
		return 'L'
	case r == 0x200C || r == 0x200D || unicode.Is(unicode.Mn, r) || unicode.Is(unicode.Mc, r) || unicode.Is(unicode.Nd, r) || unicode.Is(unicode.Pc, r) || unicode.Is(unicode.Other_ID_Continue, r):
		return 'C'
	}
	return 'O'
}

type vnUTok struct {
	tt TokenType
	n  int
}

func VerifUnicode() {
	ascii := func(tag string) []byte {
		k := vRange(tag+"n", 0, 1)
		b := vBytes(tag, k)
		for i := range b {
			c := b[i]
			vAssume(c == 'x' || c == '$' || c == '_' || c == ' ' || c == '\t' || c == ';' || c == '\n' || c == '\r')
		}
		return b
	}
	a := ascii("a")
	p := vnUniPieces[vRange("p", 0, len(vnUniPieces)-1)]
	b := ascii("b")
	var q string
	if vParam("Q", 1) != 0 {
		q = vnUniPieces[vRange("q", 0, len(vnUniPieces)-1)]
	}
	c := ascii("c")
	var src []byte
	src = append(src, a...)
	src = append(src, p...)
	src = append(src, b...)
	src = append(src, q...)
	src = append(src, c...)

	// class string, one entry per code point, with byte lengths
	var cls []byte
	var lens []int
	for i := 0; i < len(src); {
		r, n := utf8.DecodeRune(src[i:])
		if src[i] < 0x80 {
			r, n = rune(src[i]), 1
			// classify the symbolic ASCII byte by branching on it
			switch {
			case r == 'x' || r == '$' || r == '_':
				cls = append(cls, 'L')
			case r == ' ' || r == '\t':
				cls = append(cls, 'W')
			case r == ';':
				cls = append(cls, ';')
			default:
				cls = append(cls, 'T')
			}
		} else {
			cls = append(cls, refRuneClass(r))
		}
		lens = append(lens, n)
		i += n
	}
	// reference mini lexer
	var exp []vnUTok
	for i := 0; i < len(cls); {
		j, n := i, 0
		switch cls[i] {
		case 'L':
			for j < len(cls) && (cls[j] == 'L' || cls[j] == 'C') {
				n += lens[j]
				j++
			}
			exp = append(exp, vnUTok{IdentifierToken, n})
		case 'W':
			for j < len(cls) && cls[j] == 'W' {
				n += lens[j]
				j++
			}
			exp = append(exp, vnUTok{WhitespaceToken, n})
		case 'T':
			for j < len(cls) && cls[j] == 'T' {
				n += lens[j]
				j++
			}
			exp = append(exp, vnUTok{LineTerminatorToken, n})
		case ';':
			exp = append(exp, vnUTok{SemicolonToken, 1})
			j++
		default: // 'C' at the start of a token, 'O': not a token of the language
			exp = append(exp, vnUTok{ErrorToken, lens[i]})
			j++
		}
		i = j
	}
	l := NewLexer(parse.NewInputBytes(append(make([]byte, 0, len(src)+1), src...)))
	for _, e := range exp {
		tt, d := l.Next()
		vAssert(tt == e.tt, "unicode-token-type")
		vAssert(len(d) == e.n, "unicode-token-length")
		if tt == ErrorToken {
			vAssert(l.Err() != nil && l.Err() != io.EOF, "unicode-illegal-character-error")
		}
	}
	tt, _ := l.Next()
	vAssert(tt == ErrorToken && l.Err() == io.EOF, "unicode-end")
	vReach("unicode")
}
