//go:build verif

package js

import (
	"github.com/tdewolff/parse/v2"
)

// [Yield] / [Await] grammar parameters (C03, C05): a function body of 1..3 statements chosen by
// the solver inside a plain, generator, async or async-generator function (or at the top level);
// every statement form has the structure prescribed for the context it stands in - `yield*a` is
// a delegating yield in a generator and a multiplication elsewhere, arrow functions reset the
// yield context, nested plain functions reset both - and contexts are restored afterwards, so
// the order of the statements must not matter.

type vnCtxStmt func(gen, async bool) (src, str string, reject bool)

func vnArrowStr(async bool, param, body string) string {
	s := "("
	if async {
		s += "async "
	}
	return s + "Params(Binding(" + param + ")) => Stmt({ Stmt(return " + body + ") }))"
}

var vnCtxMenu = []vnCtxStmt{
	func(gen, async bool) (string, string, bool) { // yield with operand
		if gen {
			return "yield a;", "Stmt(yield a)", false
		}
		return "yield a;", "", true
	},
	func(gen, async bool) (string, string, bool) { // delegating yield vs multiplication
		if gen {
			return "yield*a;", "Stmt(yield* a)", false
		}
		return "yield*a;", "Stmt(yield*a)", false
	},
	func(gen, async bool) (string, string, bool) { // await
		if async {
			return "await a;", "Stmt(await a)", false
		}
		return "await a;", "", true
	},
	func(gen, async bool) (string, string, bool) { // plain arrow, bare parameter: no yield context inside
		return "v=>yield*v;", "Stmt" + vnArrowStr(false, "v", "(yield*v)"), false
	},
	func(gen, async bool) (string, string, bool) { // plain arrow, parenthesised parameter
		return "(v)=>yield*v;", "Stmt" + vnArrowStr(false, "v", "(yield*v)"), false
	},
	func(gen, async bool) (string, string, bool) { // async arrow, bare parameter: await context inside
		return "async v=>await v;", "Stmt" + vnArrowStr(true, "v", "(await v)"), false
	},
	func(gen, async bool) (string, string, bool) { // async arrow, parenthesised parameter
		return "async(v)=>await v;", "Stmt" + vnArrowStr(true, "v", "(await v)"), false
	},
	func(gen, async bool) (string, string, bool) { // nested plain function resets both contexts
		return "function h(){yield*a}", "Decl(function h Params() Stmt({ Stmt(yield*a) }))", false
	},
	func(gen, async bool) (string, string, bool) { // nested generator
		return "function*k(){yield*a}", "Decl(function* k Params() Stmt({ Stmt(yield* a) }))", false
	},
	func(gen, async bool) (string, string, bool) { // nested async function
		return "async function m(){await a}", "Decl(async function m Params() Stmt({ Stmt(await a) }))", false
	},
	func(gen, async bool) (string, string, bool) { // class method bodies have their own contexts
		return "x=class{*n(){yield*a}};", "Stmt(x=Decl(class Method(* n Params() Stmt({ Stmt(yield* a) }))))", false
	},
	func(gen, async bool) (string, string, bool) { // object method
		return "x={async o(){await a}};", "Stmt(x={Method(async o Params() Stmt({ Stmt(await a) }))})", false
	},
}

func VerifContexts() {
	w := vRange("wrapper", 0, 3)
	gen, async := w&1 == 1, w&2 == 2
	head := []string{"function f(){", "function*f(){", "async function f(){", "async function*f(){"}[w]
	hstr := []string{"Decl(function f Params() Stmt({", "Decl(function* f Params() Stmt({", "Decl(async function f Params() Stmt({", "Decl(async function* f Params() Stmt({"}[w]
	n := vRange("n", 1, vParam("N", 2))
	src, want := head, hstr
	reject := false
	used := make([]bool, len(vnCtxMenu))
	for i := 0; i < n; i++ {
		k := vRange("s"+string(rune('0'+i)), 0, len(vnCtxMenu)-1)
		vAssume(!used[k]) // nested declarations must not be declared twice
		used[k] = true
		s, t, r := vnCtxMenu[k](gen, async)
		src += s
		want += " " + t
		reject = reject || r
	}
	src += "}"
	want += " }))"
	o := Options{WhileToFor: vRange("whileToFor", 0, 1) == 1}
	ast, err := Parse(parse.NewInputBytes(append(make([]byte, 0, len(src)+1), src...)), o)
	if reject {
		vAssert(err != nil, "keyword-operand-outside-its-context-accepted")
		vReach("reject")
		return
	}
	vAssert(err == nil, "derived-program-rejected")
	if err != nil {
		return
	}
	vAssert(ast.String() == want, "tree-differs-from-grammar-structure")
	if vParam("RT", 0) != 0 {
		out := ast.JSString()
		ast2, err2 := Parse(parse.NewInputBytes(append(make([]byte, 0, len(out)+1), out...)), Options{})
		vAssert(err2 == nil, "printed-program-rejected")
		if err2 == nil {
			vAssert(ast2.String() == ast.String(), "reparsed-tree-differs")
			vAssert(ast2.JSString() == out, "second-print-differs")
		}
		vReach("roundtrip")
	}
	vReach("contexts")
}

// VerifComments (C05): preserved comments (/*! */, //!) and a shebang line. The parser hoists the
// preserved comments of a statement list to its front (in source order) and keeps the shebang
// first; printing emits them byte for byte and the printed text round-trips.
func VerifComments() {
	src, pre, rest := "", "", ""
	if vBool("shebang") {
		src += "#!x\n"
		pre += "Stmt(#!x) "
	}
	n := vRange("n", 1, vParam("N", 3))
	cm := 0
	var comments, stmts []string
	prevBlock := false
	for i := 0; i < n; i++ {
		k := vRange("k"+string(rune('0'+i)), 0, 4)
		if prevBlock {
			// a comment directly after a block's '}' is read together with the '}' and hoisted to the
			// front of that block (position quirk of the parser, the comment is kept); not generated
			vAssume(k != 1 && k != 2)
		}
		prevBlock = k == 4
		switch k {
		case 0:
			x := "a" + string(rune('0'+i))
			src += x + ";"
			stmts = append(stmts, "Stmt("+x+")")
		case 1:
			cm++
			c := "/*!c" + string(rune('0'+cm)) + "*/"
			src += c
			comments = append(comments, "Stmt("+c+")")
		case 2:
			cm++
			c := "//!l" + string(rune('0'+cm))
			src += c + "\n"
			comments = append(comments, "Stmt("+c+")")
		case 3: // a comment in the middle of an expression statement
			cm++
			c := "/*!m" + string(rune('0'+cm)) + "*/"
			src += "p" + c + "+q;"
			comments = append(comments, "Stmt("+c+")")
			stmts = append(stmts, "Stmt(p+q)")
		case 4: // a block with its own preserved comment after a statement
			cm++
			c := "/*!b" + string(rune('0'+cm)) + "*/"
			src += "{r;" + c + "}"
			stmts = append(stmts, "Stmt({ Stmt("+c+") Stmt(r) })")
		}
	}
	for _, c := range comments {
		rest += c + " "
	}
	for _, s := range stmts {
		rest += s + " "
	}
	want := pre + rest
	want = want[:len(want)-1]
	ast, err := Parse(parse.NewInputBytes(append(make([]byte, 0, len(src)+1), src...)), Options{})
	vAssert(err == nil, "program-with-comments-rejected")
	if err != nil {
		return
	}
	vAssert(ast.String() == want, "comment-structure-differs")
	out := ast.JSString()
	// every preserved comment and the shebang appear byte for byte in the output
	ast2, err2 := Parse(parse.NewInputBytes(append(make([]byte, 0, len(out)+1), out...)), Options{})
	vAssert(err2 == nil, "printed-program-rejected")
	if err2 == nil {
		vAssert(ast2.String() == ast.String(), "reparsed-tree-differs")
		vAssert(ast2.JSString() == out, "second-print-differs")
	}
	vReach("comments")
}

// VerifBlockScopes (C03): the same lexical name declared in sibling or nested blocks (bodies of
// while / for / if / try / bare blocks) is no redeclaration; two declarations in one block are.
// Under WhileToFor the while loops become for loops and nothing else changes.
func VerifBlockScopes() {
	w2f := vRange("whileToFor", 0, 1) == 1
	decl := []string{"let", "const", "class"}[vRange("decl", 0, 2)]
	d, dstr := "", ""
	switch decl {
	case "let":
		d, dstr = "let x;", "Decl(let Binding(x))"
	case "const":
		d, dstr = "const x=1;", "Decl(const Binding(x = 1))"
	case "class":
		d, dstr = "class x{}", "Decl(class x)"
	}
	body := func(extra string, estr string) (string, string) {
		return "{" + d + extra + "}", "Stmt({ " + dstr + estr + " })"
	}
	container := func(tag string, inner, istr string) (string, string) {
		b, bs := body(inner, istr)
		switch vRange(tag, 0, 4) {
		case 0:
			return b, bs
		case 1:
			if w2f {
				return "while(a)" + b, "Stmt(for ; a ; " + bs + ")"
			}
			return "while(a)" + b, "Stmt(while a " + bs + ")"
		case 2:
			return "for(;;)" + b, "Stmt(for ; ; " + bs + ")"
		case 3:
			b2, bs2 := body("", "")
			return "if(a)" + b + "else" + b2, "Stmt(if a " + bs + " else " + bs2 + ")"
		}
		b2, bs2 := body("", "")
		return "try" + b + "finally" + b2, "Stmt(try " + bs + " finally " + bs2 + ")"
	}
	var src, want string
	switch vRange("shape", 0, 3) {
	case 0: // siblings
		s1, t1 := container("c1", "", "")
		s2, t2 := container("c2", "", "")
		src, want = s1+s2, t1+" "+t2
	case 1: // nested: the inner container stands after the declaration of the outer body
		s2, t2 := container("c2", "", "")
		s1, t1 := container("c1", s2, " "+t2)
		src, want = s1, t1
	case 2: // outer declaration of the same name, then a container
		s1, t1 := container("c1", "", "")
		src, want = d+s1, dstr+" "+t1
	case 3: // two declarations in ONE block: a redeclaration, must be rejected
		s1, _ := container("c1", d, "")
		_, err := Parse(parse.NewInputBytes(append(make([]byte, 0, len(s1)+1), s1...)), Options{WhileToFor: w2f})
		vAssert(err != nil, "redeclaration-in-one-block-accepted")
		vReach("redeclared")
		return
	}
	ast, err := Parse(parse.NewInputBytes(append(make([]byte, 0, len(src)+1), src...)), Options{WhileToFor: w2f})
	vAssert(err == nil, "same-name-in-separate-blocks-rejected")
	if err != nil {
		return
	}
	vAssert(ast.String() == want, "tree-differs-from-grammar-structure")
	vReach("scopes")
}

// VerifForInit (C03): `in` is not an operator directly inside the initialiser of a for(;;) head, but
// it is one again inside any bracket, function body, class body or template substitution nested
// in the initialiser. Every initialiser below is valid; it must be accepted and have the same
// structure as the same expression in an ordinary declaration.
var vnForInits = []string{
	"(o,k)=>{return k in o}", "(o)=>{for(var x in o);}", "()=>{if(a in b);}", "o=>(a in o)", "async(o)=>{return a in o}",
	"function(){return a in b}", "function*(){yield a in b}", "class{m(){return a in b}}", "{m(){return a in b}}", "{k:(a in b)}",
	"[a in b]", "(a in b)", "f(a in b)", "`${a in b}`", "o[a in b]", "new C(a in b)", "f?.(a in b)", "o?.[a in b]", "new C(x)(a in b)", "t`${a in b}`", "{get p(){return a in b}}", "c?(a in b):d",
}

func VerifForInit() {
	init := vnForInits[vRange("init", 0, len(vnForInits)-1)]
	kw := []string{"var", "let", "const"}[vRange("kw", 0, 2)]
	o := Options{WhileToFor: vRange("whileToFor", 0, 1) == 1}
	plain := []byte(kw + " h=" + init + ";")
	ast1, err1 := Parse(parse.NewInputBytes(append(make([]byte, 0, len(plain)+1), plain...)), o)
	vAssert(err1 == nil, "declaration-rejected")
	if err1 != nil {
		return
	}
	decl := ast1.String() // Decl(var Binding(h = ...))
	src := []byte("for(" + kw + " h=" + init + ",i=0;i<n;i++){}")
	ast2, err2 := Parse(parse.NewInputBytes(append(make([]byte, 0, len(src)+1), src...)), o)
	vAssert(err2 == nil, "valid-for-initialiser-rejected")
	if err2 != nil {
		return
	}
	want := "Stmt(for " + decl[:len(decl)-1] + " Binding(i = 0)) ; (i<n) ; (i++) Stmt({ }))"
	vAssert(ast2.String() == want, "for-initialiser-structure-differs")
	vReach("forinit")
}

// VerifHeadForms (C05): printed forms whose meaning depends on parentheses or on the spelling of a
// property name at the head of a statement / for head / member list: the print must keep what
// is load-bearing, so that the printed text re-parses to the same tree and re-prints identically.
var vnHeadForms = []string{
	"(let)[i]=v;", "(let)[0];", "for((let)of xs);", "for((let).x in o);", "for((let).x=0;;);", "for((async)of xs);",
	"(async)\n(x);", "(function(){})();", "(class{})();", "({}).x;", "({a}=b);", "(a,b);", "(let);", "(yield);",
	"x={\"async\"(cb){}};", "x={async\n(cb){}};", "x={async(){}};", "x={async:1};", "x={get:1,set(){},static(){}};", "x={\"get\"(){}};",
	"x={'a b'(){},1(){},[k](){}};", "class A{'async'(){}};", "class A{static\nasync(){}};", "x={get\nget(){}};", "x={async*async(){}};",
	"if(a){}else{}", "a=b\n++c", "a\n;[b]", "let\na", "x=y/z/w", "x= +(+a)", "x=-(-a)", "x=a- -b", "x=a+ +b", "x=!(!a)", "x=typeof(typeof a)",
}

func VerifHeadForms() {
	src := []byte(vnHeadForms[vRange("form", 0, len(vnHeadForms)-1)])
	o := Options{WhileToFor: vRange("whileToFor", 0, 1) == 1}
	ast, err := Parse(parse.NewInputBytes(append(make([]byte, 0, len(src)+1), src...)), o)
	if err != nil {
		vReach("rejected") // not every form is valid under every reading; only accepted ones must round-trip
		return
	}
	out := ast.JSString()
	ast2, err2 := Parse(parse.NewInputBytes(append(make([]byte, 0, len(out)+1), out...)), Options{})
	vAssert(err2 == nil, "printed-program-rejected")
	if err2 != nil {
		return
	}
	vAssert(vnStripGroups(ast2.String()) == vnStripGroups(ast.String()), "reparsed-tree-differs")
	vAssert(ast2.JSString() == out, "second-print-differs")
	vReach("headforms")
}

// vnStripGroups removes redundant "((" "))" pairs introduced by GroupExpr nodes: the comparison is
// on the structure modulo parenthesis nodes.
func vnStripGroups(s string) string {
	for {
		changed := false
		for i := 0; i+1 < len(s); i++ {
			if s[i] == '(' && s[i+1] == '(' {
				// find the matching closers
				d, j := 0, i+1
				for ; j < len(s); j++ {
					if s[j] == '(' {
						d++
					} else if s[j] == ')' {
						d--
						if d == 0 {
							break
						}
					}
				}
				if j+1 < len(s) && s[j+1] == ')' {
					s = s[:i] + s[i+1:j] + s[j+1:]
					changed = true
					break
				}
			}
		}
		if !changed {
			return s
		}
	}
}
