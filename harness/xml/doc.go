//go:build verif

package xml

import (
	"github.com/tdewolff/parse/v2"
)

// Constructive documents for C11: K well-formed constructs in sequence (prolog PI, DOCTYPE,
// comment, CDATA, start tag with quoted attributes, empty-element tag, end tag, character data),
// names and values with symbolic bytes; the expected token stream (type, Text(), AttrVal()) is
// what a conforming XML reader reports for the same document, known by construction.

type vnXTok struct {
	tt   TokenType
	text []byte // expected Text(); nil = not compared
	val  []byte // expected AttrVal() (attributes)
	n    int    // expected len(data); -1 = not compared
}

var vnXLight bool

func vnXName(tag string, max int) []byte {
	if vnXLight {
		max = 1
	}
	n := vRange(tag+"n", 1, max)
	b := vBytes(tag, n)
	for i := range b {
		c := b[i]
		if i == 0 {
			vAssume(c == 'a' || c == 'B' || c == '_' || c == ':')
		} else {
			vAssume(c == 'a' || c == 'B' || c == '_' || c == ':' || c == '-' || c == '.' || c == '1')
		}
	}
	return b
}

func vnXWS(tag string, min, max int) []byte {
	if vnXLight {
		max = min
	}
	k := vRange(tag+"n", min, max)
	w := vBytes(tag, k)
	for i := range w {
		c := w[i]
		vAssume(c == ' ' || c == '\t' || c == '\n' || c == '\r')
	}
	return w
}

func vnXCat(parts ...[]byte) []byte {
	var out []byte
	for _, p := range parts {
		out = append(out, p...)
	}
	return out
}

// vnXAttr: S Name S? '=' S? quoted value (entity-free, no '<'); tab/newline inside the value are
// normalised to a space by the lexer (attribute-value normalisation)
func vnXAttr(id string, src []byte, exp []vnXTok) ([]byte, []vnXTok) {
	w0 := vnXWS(id+"w", 1, 1)
	name := vnXName(id+"k", 2)
	w1, w2 := vnXWS(id+"u", 0, 1), vnXWS(id+"v", 0, 1)
	q := byte('"')
	if !vnXLight && vBool(id+"sq") {
		q = '\''
	}
	m := 1
	if !vnXLight {
		m = vRange(id+"vn", 0, 2)
	}
	v := vBytes(id+"vb", m)
	norm := make([]byte, m)
	for i := range v {
		c := v[i]
		vAssume(c == 'a' || c == ' ' || c == '\t' || c == '\n' || c == '>' || c == '/' || c == '=' || c == '"' || c == '\'')
		vAssume(c != q)
		if c == '\t' || c == '\n' {
			norm[i] = ' '
		} else {
			norm[i] = c
		}
	}
	piece := vnXCat(w0, name, w1, []byte{'='}, w2, []byte{q}, v, []byte{q})
	return append(src, piece...), append(exp, vnXTok{AttributeToken, name, vnXCat([]byte{q}, norm, []byte{q}), -1})
}

func vnXConstruct(id string, kind int, src []byte, exp []vnXTok) ([]byte, []vnXTok, bool) {
	bodyMax := 2
	if vnXLight {
		bodyMax = 1
	}
	switch kind {
	case 0: // character data
		n := vRange(id+"tn", 1, bodyMax)
		t := vBytes(id+"t", n)
		for i := range t {
			c := t[i]
			vAssume(c == 'a' || c == ' ' || c == '>' || c == '/' || c == '?' || c == '!' || c == ']' || c == '"' || c == '\n')
		}
		return append(src, t...), append(exp, vnXTok{TextToken, t, nil, n}), true
	case 1: // comment (no "--" inside, not ending in '-')
		n := vRange(id+"cn", 0, bodyMax)
		b := vBytes(id+"c", n)
		for i := range b {
			c := b[i]
			vAssume(c == '-' || c == '>' || c == 'a' || c == '<' || c == '!' || c == '"')
		}
		for i := 0; i+1 < n; i++ {
			vAssume(!(b[i] == '-' && b[i+1] == '-'))
		}
		if n > 0 {
			vAssume(b[n-1] != '-')
		}
		piece := vnXCat([]byte("<!--"), b, []byte("-->"))
		return append(src, piece...), append(exp, vnXTok{CommentToken, b, nil, len(piece)}), false
	case 2: // CDATA
		n := vRange(id+"dn", 0, bodyMax)
		b := vBytes(id+"d", n)
		for i := range b {
			c := b[i]
			vAssume(c == ']' || c == '>' || c == '<' || c == 'a' || c == '&')
		}
		for i := 0; i+1 < n; i++ {
			vAssume(!(b[i] == ']' && b[i+1] == ']'))
		}
		if n > 0 {
			vAssume(b[n-1] != ']')
		}
		piece := vnXCat([]byte("<![CDATA["), b, []byte("]]>"))
		return append(src, piece...), append(exp, vnXTok{CDATAToken, b, nil, len(piece)}), false
	case 3: // processing instruction / XML declaration with one pseudo-attribute
		target := vnXName(id+"pi", 2)
		src = append(append(src, "<?"...), target...)
		exp = append(exp, vnXTok{StartTagPIToken, target, nil, 2 + len(target)})
		if vBool(id + "pia") {
			src, exp = vnXAttr(id+"p", src, exp)
		}
		if vBool(id + "piw") { // PI data is free text: a bare word, possibly directly before "?>"
			word := vnXName(id+"pv", 2)
			src = append(append(src, ' '), word...)
			exp = append(exp, vnXTok{AttributeToken, word, nil, -1})
		}
		w := vnXWS(id+"pw", 0, 1)
		src = append(append(src, w...), "?>"...)
		return src, append(exp, vnXTok{StartTagClosePIToken, nil, nil, 2}), false
	case 4: // DOCTYPE: plain, with a system literal in either quote, or with an internal subset
		var inner []byte
		switch vRange(id+"dt", 0, 3) {
		case 0:
			inner = []byte(" a")
		case 1:
			inner = []byte(" a SYSTEM \"x>'y\"")
		case 2:
			inner = []byte(" a SYSTEM 'x>\"y'")
		case 3:
			inner = []byte(" a [<!ENTITY e \"v\">]")
		}
		piece := vnXCat([]byte("<!DOCTYPE"), inner, []byte(">"))
		return append(src, piece...), append(exp, vnXTok{DOCTYPEToken, inner, nil, len(piece)}), false
	case 5: // start tag or empty-element tag with 0..2 attributes
		name := vnXName(id+"s", 3)
		src = append(append(src, '<'), name...)
		exp = append(exp, vnXTok{StartTagToken, name, nil, 1 + len(name)})
		na := 1
		if !vnXLight {
			na = vRange(id+"na", 0, 2)
		}
		for a := 0; a < na; a++ {
			saved := vnXLight
			if a > 0 {
				vnXLight = true // only the first attribute gets all its holes
			}
			src, exp = vnXAttr(id+string(rune('x'+a)), src, exp)
			vnXLight = saved
		}
		w := vnXWS(id+"cw", 0, 1)
		src = append(src, w...)
		if vBool(id + "void") {
			src = append(src, '/', '>')
			return src, append(exp, vnXTok{StartTagCloseVoidToken, nil, nil, 2}), false
		}
		src = append(src, '>')
		return src, append(exp, vnXTok{StartTagCloseToken, nil, nil, 1}), false
	case 6: // end tag with optional trailing whitespace
		name := vnXName(id+"e", 3)
		w := vnXWS(id+"ew", 0, 2)
		piece := vnXCat([]byte("</"), name, w, []byte(">"))
		return append(src, piece...), append(exp, vnXTok{EndTagToken, name, nil, len(piece)}), false
	}
	return src, exp, false
}

func VerifDoc() {
	k := vParam("K", 2)
	full := vParam("FULL", k-1)
	var src []byte
	var exp []vnXTok
	prevText := false
	for i := 0; i < k; i++ {
		vnXLight = i != full
		kind := vRange("kind"+string(rune('0'+i)), 0, 6)
		if prevText {
			vAssume(kind != 0)
		}
		src, exp, prevText = vnXConstruct(string(rune('A'+i)), kind, src, exp)
	}
	vnXLight = false
	l := NewLexer(parse.NewInputBytes(append(make([]byte, 0, len(src)+1), src...)))
	for _, e := range exp {
		tt, data := l.Next()
		vAssert(tt == e.tt, "doc-token-type")
		if e.n >= 0 {
			vAssert(len(data) == e.n, "doc-token-length")
		}
		if e.text != nil {
			vAssert(string(l.Text()) == string(e.text), "doc-token-text")
		}
		if tt == AttributeToken {
			vAssert(string(l.AttrVal()) == string(e.val), "doc-attr-val")
		}
	}
	tt, _ := l.Next()
	vAssert(tt == ErrorToken && l.Err() != nil, "doc-extra-token")
	vReach("doc")
}
