//go:build verif

package xml

import (
	"github.com/tdewolff/parse/v2"
)

func vnDecode(b []byte) []byte {
	var out []byte
	for i := 0; i < len(b); {
		if b[i] == '&' {
			switch {
			case i+4 < len(b) && string(b[i:i+5]) == "&#39;":
				out = append(out, '\'')
				i += 5
				continue
			case i+4 < len(b) && string(b[i:i+5]) == "&#34;":
				out = append(out, '"')
				i += 5
				continue
			case i+3 < len(b) && string(b[i:i+4]) == "&lt;":
				out = append(out, '<')
				i += 4
				continue
			case i+4 < len(b) && string(b[i:i+5]) == "&amp;":
				out = append(out, '&')
				i += 5
				continue
			}
		}
		out = append(out, b[i])
		i++
	}
	return out
}

func vnAlphabet(b []byte) {
	for i := range b {
		c := b[i]
		vAssume(c == '\'' || c == '"' || c == '&' || c == '#' || c == '3' || c == '4' || c == '9' || c == ';' || c == 'a' || c == ' ' || c == '<' || c == '>' || c == 'l' || c == 't' || c == '\t' || c == ']')
	}
}

// VerifEscapeAttr: xml.EscapeAttrVal output is read back by the XML lexer as one quoted
// attribute value that decodes to the original text (modulo XML whitespace normalisation).
func VerifEscapeAttr() {
	n := vRange("n", 0, vParam("N", 3))
	b := vBytes("b", n)
	vnAlphabet(b)
	orig := append([]byte(nil), b...)
	var buf []byte
	out := EscapeAttrVal(&buf, b)
	vObserve("out", out)
	vAssert(len(out) >= 2 && (out[0] == '"' || out[0] == '\'') && out[len(out)-1] == out[0], "not-quoted")
	doc := append(append([]byte("<a x="), out...), '>')
	l := NewLexer(parse.NewInputBytes(append(make([]byte, 0, len(doc)+1), doc...)))
	tt, _ := l.Next()
	vAssert(tt == StartTagToken, "readback-starttag")
	tt, _ = l.Next()
	vAssert(tt == AttributeToken, "readback-attribute")
	val := l.AttrVal()
	vAssert(len(val) == len(out), "readback-length")
	tt, _ = l.Next()
	vAssert(tt == StartTagCloseToken, "readback-close")
	inner := val[1 : len(val)-1]
	dec := vnDecode(inner)
	want := vnDecode(orig)
	vAssert(len(dec) == len(want), "decoded-length")
	for i := range want {
		w := want[i]
		if w == '\t' || w == '\n' || w == '\r' {
			w = ' '
		}
		if i < len(dec) {
			vAssert(dec[i] == w, "decoded-text-differs")
		}
	}
	vReach("attr")
}

// VerifEscapeCDATA: EscapeCDATAVal declines, or un-escaping &lt; / &amp; gives the input back.
func VerifEscapeCDATA() {
	n := vRange("n", 0, vParam("N", 3))
	b := vBytes("b", n)
	vnAlphabet(b)
	orig := append([]byte(nil), b...)
	var buf []byte
	out, ok := EscapeCDATAVal(&buf, b)
	vObserve("out", out, ok)
	if !ok {
		vAssert(string(out) == string(orig), "declined-but-changed")
		vReach("declined")
		return
	}
	// un-escape exactly the two entities the function introduces
	var un []byte
	for i := 0; i < len(out); {
		if i+3 < len(out) && string(out[i:i+4]) == "&lt;" {
			un = append(un, '<')
			i += 4
		} else if i+4 < len(out) && string(out[i:i+5]) == "&amp;" {
			un = append(un, '&')
			i += 5
		} else {
			un = append(un, out[i])
			i++
		}
	}
	vAssert(string(un) == string(orig), "cdata-unescape-differs")
	for _, c := range out {
		vAssert(c != '<', "cdata-raw-lt")
	}
	vReach("escaped")
}
