//go:build verif

package xml

import (
	"github.com/tdewolff/parse/v2"
)

func vnIndex(b []byte, sub string, from int) int {
	for i := from; i+len(sub) <= len(b); i++ {
		if string(b[i:i+len(sub)]) == sub {
			return i
		}
	}
	return -1
}

// VerifConstruct: one well-formed construct with a symbolic body followed by an element:
// the lexer returns one token for the construct with the right type and Text(), then the
// element's start tag (the construct never swallows following markup).
func VerifConstruct() {
	n := vRange("n", 0, vParam("N", 3))
	body := vBytes("b", n)
	for i := range body {
		c := body[i]
		vAssume(c == ']' || c == '[' || c == '>' || c == '<' || c == '-' || c == '"' || c == '\'' || c == 'a' || c == ' ' || c == '?' || c == '!')
	}
	kind := vRange("kind", 0, 7)
	var src []byte
	var wantType TokenType
	var wantText []byte
	switch kind {
	case 0: // CDATA: content up to the first "]]>"
		all := append(append([]byte(nil), body...), "]]>"...)
		end := vnIndex(all, "]]>", 0)
		wantText = all[:end]
		vAssume(end == n) // the body itself contains no terminator (well-formed section with this body)
		src = append(append([]byte("<![CDATA["), body...), "]]>"...)
		wantType = CDATAToken
	case 1: // comment: content up to the first "-->"; well-formed comments contain no "--"
		vAssume(vnIndex(body, "--", 0) < 0 && (n == 0 || body[n-1] != '-'))
		src = append(append([]byte("<!--"), body...), "-->"...)
		wantType = CommentToken
		wantText = body
	case 2: // DOCTYPE with a double-quoted system literal: ends at the first '>' outside the literal
		for i := range body {
			vAssume(body[i] != '"' && body[i] != '<')
		}
		src = append(append([]byte("<!DOCTYPE a SYSTEM \""), body...), "\">"...)
		wantType = DOCTYPEToken
		wantText = append(append([]byte(" a SYSTEM \""), body...), '"')
	case 3: // DOCTYPE with an internal subset
		for i := range body {
			vAssume(body[i] != '"' && body[i] != '\'' && body[i] != ']' && body[i] != '[' && body[i] != '<')
		}
		src = append(append([]byte("<!DOCTYPE a ["), body...), "]>"...)
		wantType = DOCTYPEToken
		wantText = append(append([]byte(" a ["), body...), ']')
	case 4: // double-quoted attribute value
		for i := range body {
			vAssume(body[i] != '"' && body[i] != '<')
		}
		src = append(append([]byte("<e x=\""), body...), "\">"...)
	case 7: // DOCTYPE with a single-quoted system literal (SystemLiteral ::= "'" [^']* "'")
		for i := range body {
			vAssume(body[i] != '\'' && body[i] != '<')
		}
		src = append(append([]byte("<!DOCTYPE a SYSTEM '"), body...), "'>"...)
		wantType = DOCTYPEToken
		wantText = append(append([]byte(" a SYSTEM '"), body...), '\'')
	case 5, 6:
		// handled below: whitespace around '=' and before the '>' of an end tag
	}
	if kind == 5 || kind == 6 {
		ws := func(tag string) []byte {
			k := vRange(tag+"n", 0, 2)
			w := vBytes(tag, k)
			for i := range w {
				c := w[i]
				vAssume(c == ' ' || c == '\t' || c == '\n' || c == '\r')
			}
			return w
		}
		if kind == 5 { // <e x S? = S? "v">
			w1, w2 := ws("w"), ws("u")
			src = append([]byte("<e x"), w1...)
			src = append(src, '=')
			src = append(src, w2...)
			src = append(src, "\"v\"><z>"...)
			l := NewLexer(parse.NewInputBytes(append(make([]byte, 0, len(src)+1), src...)))
			tt, _ := l.Next()
			vAssert(tt == StartTagToken, "attr-ws-starttag")
			tt, _ = l.Next()
			vAssert(tt == AttributeToken && string(l.Text()) == "x" && string(l.AttrVal()) == "\"v\"", "attr-with-whitespace-around-equals")
			tt, _ = l.Next()
			vAssert(tt == StartTagCloseToken, "attr-ws-close")
			tt, _ = l.Next()
			vAssert(tt == StartTagToken && string(l.Text()) == "z", "following-element-lost")
			vReach("attr-ws")
			return
		}
		w1 := ws("w") // </e S? >
		src = append([]byte("<e></e"), w1...)
		src = append(src, "><z>"...)
		l := NewLexer(parse.NewInputBytes(append(make([]byte, 0, len(src)+1), src...)))
		l.Next()
		l.Next()
		tt, _ := l.Next()
		vAssert(tt == EndTagToken && string(l.Text()) == "e", "end-tag-name-with-trailing-whitespace")
		tt, _ = l.Next()
		vAssert(tt == StartTagToken && string(l.Text()) == "z", "following-element-lost")
		vReach("endtag-ws")
		return
	}
	src = append(src, "<z>"...)
	l := NewLexer(parse.NewInputBytes(append(make([]byte, 0, len(src)+1), src...)))
	if kind == 4 {
		tt, _ := l.Next()
		vAssert(tt == StartTagToken && string(l.Text()) == "e", "attr-starttag")
		tt, _ = l.Next()
		vAssert(tt == AttributeToken && string(l.Text()) == "x", "attr-token")
		v := l.AttrVal()
		vAssert(len(v) == n+2 && v[0] == '"' && v[n+1] == '"', "attr-value-span")
		for i := 0; i < n && i+1 < len(v); i++ {
			vAssert(v[i+1] == body[i], "attr-value-content")
		}
		tt, _ = l.Next()
		vAssert(tt == StartTagCloseToken, "attr-close")
		vReach("attribute")
	} else {
		tt, data := l.Next()
		vAssert(tt == wantType, "construct-type")
		vAssert(len(data) == len(src)-3, "construct-swallows-or-truncates")
		vAssert(string(l.Text()) == string(wantText), "construct-text")
		vReach("construct")
	}
	tt, _ := l.Next()
	vAssert(tt == StartTagToken && string(l.Text()) == "z", "following-element-lost")
}
