//go:build verif

package xml

import (
	"io"

	"github.com/tdewolff/parse/v2"
)

func vnWS(c byte) bool { return c == ' ' || c == '\t' || c == '\n' || c == '\r' }

const (
	vnC01 = 1
	vnC02 = 2
	vnC11 = 4
)

// vnW drives the XML lexer over every byte string of length 0..N and checks the
// clauses selected by mode.
func vnW(mode int) {
	n := vRange("n", 0, vParam("N", 3))
	b := vBytes("b", n)
	orig := append([]byte(nil), b...)
	z := parse.NewInputBytes(append(make([]byte, 0, n+1), b...))
	whole := z.Bytes()
	l := NewLexer(z)
	prevEnd := 0
	inTag := false
	ended := false
	policy := 0
	if mode&vnC01 != 0 {
		policy = vRange("policy", 0, 1)
	}
	for i := 0; i < 2*n+4; i++ {
		wasInTag := inTag
		tt, data := l.Next()
		vObserve("tok", int(tt), data, l.Text(), l.AttrVal())
		if tt == ErrorToken {
			ended = true
			vAssert(l.Err() != nil, "error-without-err")
			if l.Err() == io.EOF {
				vReach("eof")
				if mode&vnC11 != 0 {
					// the end is only reported at the real end: an embedded NUL never ends the document silently
					vAssert(z.Offset() == n, "eof-before-end")
				}
			} else {
				vReach("error")
				if mode&vnC11 != 0 {
					vAssert(z.Offset() < n && orig[z.Offset()] == 0, "nul-error-not-at-nul")
				}
			}
			if policy == 1 {
				e1 := l.Err()
				tt2, d2 := l.Next()
				vAssert(tt2 == ErrorToken && len(d2) == 0, "not-sticky")
				vAssert((l.Err() == io.EOF) == (e1 == io.EOF) && l.Err() != nil, "err-not-sticky")
			}
			break
		}
		off := vOffsetIn(data, whole)
		if mode&vnC11 != 0 {
			// an embedded NUL is reported as an error: no token may carry one
			for j := range data {
				vAssert(data[j] != 0, "nul-inside-token")
			}
		}
		if mode&vnC01 != 0 {
			vAssert(off >= 0 && off+len(data) <= n, "token-outside-input")
			vAssert(z.Offset() <= n, "offset-past-end")
		}
		if mode&vnC02 != 0 {
			vAssert(len(data) > 0, "empty-token")
			vAssert(off >= prevEnd, "token-overlap")
			vAssert(off+len(data) == z.Offset(), "token-not-ending-at-offset")
			vAssert(cap(data) == len(data), "token-cap")
			// bytes not covered by a token: whitespace, and only inside a tag
			for j := prevEnd; j < off; j++ {
				vAssert(wasInTag && vnWS(orig[j]), "skipped-non-whitespace")
			}
			if t := l.Text(); len(t) > 0 {
				to := vOffsetIn(t, whole)
				vAssert(to >= off && to+len(t) <= off+len(data), "text-outside-token")
			}
			if tt == AttributeToken {
				if v := l.AttrVal(); len(v) > 0 {
					vo := vOffsetIn(v, whole)
					vAssert(vo >= off && vo+len(v) <= off+len(data), "attrval-outside-token")
				}
			}
			// the only bytes altered: tab/CR/LF -> space inside a quoted attribute value
			for j := 0; j < len(data); j++ {
				o := orig[off+j]
				if data[j] != o {
					inQuoted := false
					if tt == AttributeToken {
						if v := l.AttrVal(); len(v) > 0 && (v[0] == '"' || v[0] == '\'') {
							vo := vOffsetIn(v, whole)
							inQuoted = off+j > vo && off+j < vo+len(v)
						}
					}
					vAssert(inQuoted && data[j] == ' ' && (o == '\t' || o == '\n' || o == '\r'), "input-altered")
				}
			}
			prevEnd = off + len(data)
		}
		switch tt {
		case StartTagToken, StartTagPIToken:
			inTag = true
		case StartTagCloseToken, StartTagCloseVoidToken, StartTagClosePIToken:
			if mode&vnC11 != 0 {
				vAssert(wasInTag, "tag-close-outside-tag")
			}
			inTag = false
		case AttributeToken:
			if mode&vnC11 != 0 {
				vAssert(wasInTag, "attribute-outside-tag")
				vReach("attr")
			}
		default:
			if mode&vnC11 != 0 {
				vAssert(!wasInTag, "content-token-inside-tag")
			}
		}
	}
	vAssert(ended, "no-termination")
	if mode&vnC02 != 0 {
		// nothing outside the returned tokens was altered
		for j := prevEnd; j < n; j++ {
			vAssert(whole[j] == orig[j], "tail-altered")
		}
	}
}

func VerifW01() { vnW(vnC01) }
func VerifW02() { vnW(vnC02) }
func VerifW11() { vnW(vnC11) }
