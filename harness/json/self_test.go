//go:build verif

package json

import (
	"bytes"
	stdjson "encoding/json"
	"testing"
)

// TestVerifSelfRefJSON validates the reference recogniser used by the solver runs against
// encoding/json on every string of length <= 6 over the JSON-relevant alphabet.
func TestVerifSelfRefJSON(t *testing.T) {
	alpha := []byte("{}[]\",:\\ntrue0-1.eE+u/a \n")
	var rec func(prefix []byte, depth int)
	n := 0
	rec = func(prefix []byte, depth int) {
		got := refValid(prefix)
		want := stdjson.Valid(prefix)
		if got != want {
			t.Fatalf("refValid(%q)=%v, encoding/json.Valid=%v", prefix, got, want)
		}
		if want {
			var buf bytes.Buffer
			if err := stdjson.Compact(&buf, prefix); err == nil {
				if string(refCompact(prefix)) != buf.String() {
					t.Fatalf("refCompact(%q)=%q, json.Compact=%q", prefix, refCompact(prefix), buf.String())
				}
			}
		}
		n++
		if depth == 0 {
			return
		}
		for _, c := range alpha {
			rec(append(append([]byte(nil), prefix...), c), depth-1)
		}
	}
	rec(nil, 4)
	t.Logf("%d strings compared", n)
}
