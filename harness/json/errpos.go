//go:build verif

package json

import (
	"github.com/tdewolff/parse/v2"
)

// refBoundaries marks the offsets of a valid JSON text that lie between two tokens.
func refBoundaries(b []byte) []bool {
	bd := make([]bool, len(b)+1)
	i := 0
	for i < len(b) {
		bd[i] = true
		c := b[i]
		var e int
		switch {
		case c == '"':
			e = refString(b, i)
		case c == 't':
			e = refLit(b, i, "true")
		case c == 'f':
			e = refLit(b, i, "false")
		case c == 'n':
			e = refLit(b, i, "null")
		case c == '-' || c >= '0' && c <= '9':
			e = refNumber(b, i)
		default:
			e = i + 1 // structural character or whitespace
		}
		if e <= i {
			e = i + 1
		}
		i = e
	}
	bd[len(b)] = true
	return bd
}

// VerifErrPos: a single illegal character inserted between two tokens of a valid
// single-line JSON document is reported at exactly its own position, inside the input.
func VerifErrPos() {
	n := vRange("n", 1, vParam("N", 3))
	b := vBytes("b", n)
	for i := range b {
		vAssume(b[i] >= 0x20 && b[i] < 0x7F)
	}
	vAssume(refValid(b))
	bd := refBoundaries(b)
	k := vRange("k", 0, n)
	vAssume(bd[k])
	var bad byte
	switch vRange("bad", 0, 2) {
	case 0:
		bad = '?'
	case 1:
		bad = 0x01
	case 2:
		bad = ')'
	}
	doc := make([]byte, 0, n+2)
	doc = append(doc, b[:k]...)
	doc = append(doc, bad)
	doc = append(doc, b[k:]...)
	p := NewParser(parse.NewInputBytes(doc))
	found := false
	for i := 0; i < 2*n+6; i++ {
		gt, _ := p.Next()
		if gt == ErrorGrammar {
			perr, ok := p.Err().(*parse.Error)
			vAssert(ok, "illegal-character-not-reported")
			if ok {
				vObserve("err", perr.Line, perr.Column)
				vAssert(perr.Line == 1, "error-line")
				vAssert(perr.Column >= 1 && perr.Column <= n+1, "error-outside-input")
				vAssert(perr.Column == k+1, "error-not-at-inserted-character")
			}
			found = true
			break
		}
	}
	vAssert(found, "no-error")
	vReach("errpos")
}
