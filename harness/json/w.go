//go:build verif

package json

import (
	"io"

	"github.com/tdewolff/parse/v2"
)

func vnIsWS(c byte) bool { return c == ' ' || c == '\n' || c == '\r' || c == '\t' }

// ---- reference recogniser for RFC 8259 (validated natively against encoding/json) ----

func refWS(b []byte, i int) int {
	for i < len(b) && vnIsWS(b[i]) {
		i++
	}
	return i
}

func refHex(c byte) bool {
	return c >= '0' && c <= '9' || c >= 'a' && c <= 'f' || c >= 'A' && c <= 'F'
}

func refString(b []byte, i int) int {
	if i >= len(b) || b[i] != '"' {
		return -1
	}
	i++
	for i < len(b) {
		c := b[i]
		if c == '"' {
			return i + 1
		}
		if c < 0x20 {
			return -1
		}
		if c == '\\' {
			if i+1 >= len(b) {
				return -1
			}
			e := b[i+1]
			if e == 'u' {
				if i+5 >= len(b) || !refHex(b[i+2]) || !refHex(b[i+3]) || !refHex(b[i+4]) || !refHex(b[i+5]) {
					return -1
				}
				i += 6
				continue
			}
			if e == '"' || e == '\\' || e == '/' || e == 'b' || e == 'f' || e == 'n' || e == 'r' || e == 't' {
				i += 2
				continue
			}
			return -1
		}
		i++
	}
	return -1
}

func refDigit(b []byte, i int) bool { return i < len(b) && b[i] >= '0' && b[i] <= '9' }

func refNumber(b []byte, i int) int {
	if i < len(b) && b[i] == '-' {
		i++
	}
	if !refDigit(b, i) {
		return -1
	}
	if b[i] == '0' {
		i++
	} else {
		for refDigit(b, i) {
			i++
		}
	}
	if i < len(b) && b[i] == '.' {
		i++
		if !refDigit(b, i) {
			return -1
		}
		for refDigit(b, i) {
			i++
		}
	}
	if i < len(b) && (b[i] == 'e' || b[i] == 'E') {
		i++
		if i < len(b) && (b[i] == '+' || b[i] == '-') {
			i++
		}
		if !refDigit(b, i) {
			return -1
		}
		for refDigit(b, i) {
			i++
		}
	}
	return i
}

func refLit(b []byte, i int, s string) int {
	if i+len(s) > len(b) {
		return -1
	}
	for j := 0; j < len(s); j++ {
		if b[i+j] != s[j] {
			return -1
		}
	}
	return i + len(s)
}

// refValue returns the end of the JSON value starting at i (after optional whitespace), or -1.
func refValue(b []byte, i int) int {
	i = refWS(b, i)
	if i >= len(b) {
		return -1
	}
	switch c := b[i]; {
	case c == '{':
		i = refWS(b, i+1)
		if i < len(b) && b[i] == '}' {
			return i + 1
		}
		for {
			i = refWS(b, i)
			i = refString(b, i)
			if i < 0 {
				return -1
			}
			i = refWS(b, i)
			if i >= len(b) || b[i] != ':' {
				return -1
			}
			i = refValue(b, i+1)
			if i < 0 {
				return -1
			}
			i = refWS(b, i)
			if i >= len(b) {
				return -1
			}
			if b[i] == '}' {
				return i + 1
			}
			if b[i] != ',' {
				return -1
			}
			i++
		}
	case c == '[':
		i = refWS(b, i+1)
		if i < len(b) && b[i] == ']' {
			return i + 1
		}
		for {
			i = refValue(b, i)
			if i < 0 {
				return -1
			}
			i = refWS(b, i)
			if i >= len(b) {
				return -1
			}
			if b[i] == ']' {
				return i + 1
			}
			if b[i] != ',' {
				return -1
			}
			i++
		}
	case c == '"':
		return refString(b, i)
	case c == 't':
		return refLit(b, i, "true")
	case c == 'f':
		return refLit(b, i, "false")
	case c == 'n':
		return refLit(b, i, "null")
	default:
		return refNumber(b, i)
	}
}

func refValid(b []byte) bool {
	i := refValue(b, 0)
	if i < 0 {
		return false
	}
	return refWS(b, i) == len(b)
}

// refCompact removes whitespace outside strings (only meaningful for valid documents).
func refCompact(b []byte) []byte {
	out := make([]byte, 0, len(b))
	for i := 0; i < len(b); {
		if b[i] == '"' {
			e := refString(b, i)
			if e < 0 {
				e = len(b)
			}
			out = append(out, b[i:e]...)
			i = e
			continue
		}
		if !vnIsWS(b[i]) {
			out = append(out, b[i])
		}
		i++
	}
	return out
}

const (
	vnObj = 1
	vnArr = 2
)

// VerifW: whole run of json.Parser over every byte string of length 0..N, up to
// the first error: nesting, State(), separators between units, slices inside the input.
func VerifW() {
	n := vRange("n", 0, vParam("N", 3))
	b := vBytes("b", n)
	in := append(make([]byte, 0, n+1), b...) // spare capacity: the parser works in place
	z := parse.NewInputBytes(in)
	whole := z.Bytes()
	p := NewParser(z)
	var stack []int
	prevEnd := 0
	prevKind := 0 // 0 none, 1 start, 2 key, 3 value or end
	ended := false
	for i := 0; i < 2*n+4; i++ {
		gt, data := p.Next()
		vObserve("tok", int(gt), data, int(p.State()))
		if gt == ErrorGrammar {
			vAssert(p.Err() != nil, "error-without-err")
			vAssert(len(data) == 0, "error-with-data")
			if p.Err() == io.EOF {
				vReach("eof")
			} else {
				vReach("error")
				_, isPE := p.Err().(*parse.Error)
				vAssert(isPE, "error-type")
			}
			ended = true
			break
		}
		// every unit is a non-empty slice of the input, after the previous one
		off := vOffsetIn(data, whole)
		vAssert(len(data) > 0, "empty-unit")
		vAssert(off >= prevEnd && off+len(data) <= n, "unit-outside-input")
		vAssert(z.Offset() <= n, "offset-past-end")
		// separators between the previous unit and this one
		commas, colons, other := 0, 0, 0
		for j := prevEnd; j < off; j++ {
			c := whole[j]
			if c == ',' {
				commas++
			} else if c == ':' {
				colons++
			} else if !vnIsWS(c) {
				other++
			}
		}
		vAssert(other == 0, "skipped-non-separator")
		isEnd := gt == EndObjectGrammar || gt == EndArrayGrammar
		switch prevKind {
		case 0, 1:
			vAssert(colons == 0, "stray-colon")
		case 2:
			vAssert(colons == 1 && commas == 0, "missing-colon")
		case 3:
			if isEnd {
				vAssert(commas <= 1 && colons == 0, "bad-separator-before-end")
			} else {
				vAssert(commas == 1 && colons == 0, "missing-comma")
			}
		}
		// nesting
		switch gt {
		case StartObjectGrammar:
			stack = append(stack, vnObj)
			prevKind = 1
		case StartArrayGrammar:
			stack = append(stack, vnArr)
			prevKind = 1
		case EndObjectGrammar:
			vAssert(len(stack) > 0 && stack[len(stack)-1] == vnObj, "unmatched-end-object")
			stack = stack[:len(stack)-1]
			prevKind = 3
		case EndArrayGrammar:
			vAssert(len(stack) > 0 && stack[len(stack)-1] == vnArr, "unmatched-end-array")
			stack = stack[:len(stack)-1]
			prevKind = 3
		default:
			if p.State() == ObjectValueState {
				vAssert(gt == StringGrammar && data[0] == '"' && data[len(data)-1] == '"', "key-not-string")
				prevKind = 2
			} else {
				prevKind = 3
			}
		}
		// State() describes the innermost open container
		st := p.State()
		if len(stack) == 0 {
			vAssert(st == ValueState, "state-toplevel")
		} else if stack[len(stack)-1] == vnArr {
			vAssert(st == ArrayState, "state-array")
		} else {
			vAssert(st == ObjectKeyState || st == ObjectValueState, "state-object")
		}
		prevEnd = off + len(data)
	}
	vAssert(ended, "no-termination")
}

// VerifW01: caller keeps calling Next after errors: the end report is reached within
// a linear number of calls, repeats, and nothing outside the input is handed out.
func VerifW01() {
	n := vRange("n", 0, vParam("N", 3))
	b := vBytes("b", n)
	z := parse.NewInputBytes(append(make([]byte, 0, n+1), b...))
	whole := z.Bytes()
	p := NewParser(z)
	ended := false
	prevErr, prevErrOff := false, -1
	for i := 0; i < 3*n+6; i++ {
		gt, data := p.Next()
		vObserve("tok", int(gt), data)
		vAssert(z.Offset() <= n, "offset-past-end")
		_ = p.State()
		if gt == ErrorGrammar {
			vAssert(p.Err() != nil, "error-without-err")
			final := p.Err() == io.EOF || (prevErr && prevErrOff == z.Offset())
			if final {
				ended = true
				eof := p.Err() == io.EOF
				gt2, d2 := p.Next()
				vAssert(gt2 == ErrorGrammar && len(d2) == 0, "end-not-sticky")
				vAssert((p.Err() == io.EOF) == eof, "end-err-not-sticky")
				vReach("end")
				break
			}
			prevErr, prevErrOff = true, z.Offset()
			vReach("error")
			continue
		}
		prevErr = false
		off := vOffsetIn(data, whole)
		vAssert(len(data) > 0 && off >= 0 && off+len(data) <= n, "unit-outside-input")
	}
	vAssert(ended, "no-termination")
}

// VerifValid: every document the RFC 8259 reference accepts is parsed without
// error and the units re-joined with ',' / ':' equal the compacted input.
func VerifValid() {
	n := vRange("n", 1, vParam("N", 3))
	b := vBytes("b", n)
	vAssume(refValid(b))
	vReach("valid")
	want := refCompact(b)
	p := NewParser(parse.NewInputBytes(append(make([]byte, 0, n+1), b...)))
	var out []byte
	needSep := false
	for i := 0; i < 2*n+4; i++ {
		gt, data := p.Next()
		if gt == ErrorGrammar {
			vAssert(p.Err() == io.EOF, "valid-document-rejected")
			break
		}
		isEnd := gt == EndObjectGrammar || gt == EndArrayGrammar
		if needSep && !isEnd {
			out = append(out, ',')
		}
		out = append(out, data...)
		switch {
		case gt == StartObjectGrammar || gt == StartArrayGrammar:
			needSep = false
		case !isEnd && p.State() == ObjectValueState:
			out = append(out, ':')
			needSep = false
		default:
			needSep = true
		}
	}
	vObserve("out", out)
	vAssert(string(out) == string(want), "rejoined-differs")
}
