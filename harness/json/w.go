//go:build verif

package json

import (
	"io"

	"github.com/tdewolff/parse/v2"
)

// VerifW: whole run of json.Parser over every byte string of length 0..N.
func VerifW() {
	n := vRange("n", 0, vParam("N", 3))
	b := vBytes("b", n)
	p := NewParser(parse.NewInputBytes(b))
	for i := 0; i < 2*n+4; i++ {
		gt, data := p.Next()
		vObserve("tok", int(gt), data)
		if gt == ErrorGrammar {
			if p.Err() == io.EOF {
				vReach("eof")
			} else {
				vReach("error")
			}
			return
		}
	}
	vAssert(false, "no-termination")
}
