//go:build verif

package json

import (
	"io"

	"github.com/tdewolff/parse/v2"
)

// Grammar-derived JSON documents for C10: the value is derived from RFC 8259 (productions chosen
// by the solver, depth-bounded; insignificant whitespace, string characters and number digits are
// symbolic bytes). Every production appends to the source and - independently of the parser - to
// the compacted text and to the expected unit list. The parser must return exactly those units,
// State() must describe the innermost open container, and re-joining gives the compacted text.

type vnJUnit struct {
	gt   GrammarType
	text []byte
}

type vnJGen struct {
	n     int
	depth int
	src   []byte
	cmp   []byte
	units []vnJUnit
	wsLeft int
	light  bool // derive only the simplest alternative (null, "k")
}

func (g *vnJGen) tag(s string) string {
	g.n++
	return s + string(rune('a'+g.n/26)) + string(rune('a'+g.n%26))
}

func (g *vnJGen) ws() {
	if g.wsLeft == 0 {
		return // at most WSN whitespace runs per document (keeps the product of choices tractable)
	}
	k := vRange(g.tag("w"), 0, vParam("WS", 1))
	if k > 0 {
		g.wsLeft--
	}
	w := vBytes(g.tag("wb"), k)
	for i := range w {
		c := w[i]
		vAssume(c == ' ' || c == '\t' || c == '\n' || c == '\r')
	}
	g.src = append(g.src, w...)
}

func (g *vnJGen) emit(gt GrammarType, text []byte) {
	g.src = append(g.src, text...)
	g.cmp = append(g.cmp, text...)
	g.units = append(g.units, vnJUnit{gt, text})
}

func (g *vnJGen) str() []byte {
	if g.light {
		return []byte("\"k\"")
	}
	n := vRange(g.tag("sn"), 0, vParam("STR", 1))
	out := []byte{'"'}
	for i := 0; i < n; i++ {
		switch vRange(g.tag("sk"), 0, 2) {
		case 0: // unescaped character: any byte >= 0x20 except '"' and '\\' (kept ASCII here)
			b := vBytes(g.tag("sc"), 1)
			c := b[0]
			vAssume(c >= 0x20 && c < 0x7f && c != '"' && c != '\\')
			out = append(out, c)
		case 1: // two-character escape
			b := vBytes(g.tag("se"), 1)
			c := b[0]
			vAssume(c == '"' || c == '\\' || c == '/' || c == 'b' || c == 'f' || c == 'n' || c == 'r' || c == 't')
			out = append(out, '\\', c)
		case 2: // \uXXXX
			out = append(out, "\\u00e9"...)
		}
	}
	return append(out, '"')
}

func (g *vnJGen) num() []byte {
	var out []byte
	if vBool(g.tag("neg")) {
		out = append(out, '-')
	}
	d := vBytes(g.tag("d"), 1)
	c := d[0]
	vAssume(c >= '0' && c <= '9')
	out = append(out, c)
	switch vRange(g.tag("nf"), 0, 3) {
	case 1:
		vAssume(c != '0') // no leading zero before more digits
		out = append(out, '5')
	case 2:
		out = append(out, '.', '2', '5')
	case 3:
		e := vBytes(g.tag("e"), 2)
		vAssume(e[0] == 'e' || e[0] == 'E')
		vAssume(e[1] == '+' || e[1] == '-')
		out = append(out, e[0], e[1], '7')
	}
	return out
}

func (g *vnJGen) value(depth int) {
	if g.light {
		g.emit(LiteralGrammar, []byte("null"))
		return
	}
	hi := 6
	if depth >= g.depth {
		hi = 4
	}
	switch vRange(g.tag("v"), 0, hi) {
	case 0:
		g.emit(LiteralGrammar, []byte("null"))
	case 1:
		g.emit(LiteralGrammar, []byte("true"))
	case 2:
		g.emit(LiteralGrammar, []byte("false"))
	case 3:
		g.emit(NumberGrammar, g.num())
	case 4:
		g.emit(StringGrammar, g.str())
	case 5: // array
		g.emit(StartArrayGrammar, []byte("["))
		n := vRange(g.tag("an"), 0, 2)
		g.ws()
		for i := 0; i < n; i++ {
			if i > 0 {
				g.src = append(g.src, ',')
				g.cmp = append(g.cmp, ',')
				g.ws()
			}
			g.light = i > 0 // only the first element is derived in full
			g.value(depth + 1)
			g.light = false
			g.ws()
		}
		g.emit(EndArrayGrammar, []byte("]"))
	case 6: // object
		g.emit(StartObjectGrammar, []byte("{"))
		n := vRange(g.tag("on"), 0, 2)
		g.ws()
		for i := 0; i < n; i++ {
			if i > 0 {
				g.src = append(g.src, ',')
				g.cmp = append(g.cmp, ',')
				g.ws()
			}
			g.light = i > 0
			g.emit(StringGrammar, g.str())
			g.ws()
			g.src = append(g.src, ':')
			g.cmp = append(g.cmp, ':')
			g.ws()
			g.value(depth + 1)
			g.light = false
			g.ws()
		}
		g.emit(EndObjectGrammar, []byte("}"))
	}
}

func VerifDoc() {
	g := &vnJGen{depth: vParam("DEPTH", 1), wsLeft: vParam("WSN", 2)}
	g.ws()
	g.value(0)
	g.ws()
	src := g.src
	p := NewParser(parse.NewInputBytes(append(make([]byte, 0, len(src)+1), src...)))
	var out []byte
	needSep := false
	var stack []GrammarType
	for _, u := range g.units {
		gt, data := p.Next()
		vAssert(gt == u.gt, "doc-unit-type")
		vAssert(string(data) == string(u.text), "doc-unit-text")
		isEnd := gt == EndObjectGrammar || gt == EndArrayGrammar
		if needSep && !isEnd {
			out = append(out, ',')
		}
		out = append(out, data...)
		switch {
		case gt == StartObjectGrammar || gt == StartArrayGrammar:
			stack = append(stack, gt)
			needSep = false
		case isEnd:
			stack = stack[:len(stack)-1]
			needSep = true
		case p.State() == ObjectValueState:
			out = append(out, ':')
			needSep = false
		default:
			needSep = true
		}
		// State() describes the innermost open container
		switch {
		case len(stack) == 0:
			vAssert(p.State() == ValueState, "doc-state-top")
		case stack[len(stack)-1] == StartArrayGrammar:
			vAssert(p.State() == ArrayState, "doc-state-array")
		default:
			vAssert(p.State() == ObjectKeyState || p.State() == ObjectValueState, "doc-state-object")
		}
	}
	gt, _ := p.Next()
	vAssert(gt == ErrorGrammar && p.Err() == io.EOF, "doc-end")
	vAssert(string(out) == string(g.cmp), "doc-rejoined-differs")
	vReach("doc")
}
