#!/bin/bash
# runs every seeded change under /verif/seeded through the check of its property (quick tier);
# seedtest.sh (with confirmation of the seed itself) was run once per seed when it was added
out=/verif/seeded/RESULTS.txt
tier=${1:-quick}
: > $out.tmp
for d in /verif/seeded/C*-*/; do
  n=$(basename $d); id=${n%-*}; k=${n#*-}
  r=$(/verif/seedcheck.sh $id $k $tier 2>&1 | grep "RESULT" | tail -1)
  echo "$n $r" >> $out.tmp
done
mv $out.tmp $out
