#!/bin/bash
# usage: seedcheck.sh <Cxx> <k> [tier]  — runs the property's check against a scratch copy of /repo
# with the (already confirmed) seeded change applied; does not repeat the confirmation steps.
id=$1; k=$2; tier=${3:-quick}
dst=/verif/seeded/$id-$k
sr=/tmp/seedrepo-$id-$k
rm -rf $sr; git -C /repo worktree prune; git -C /repo worktree add -q --detach $sr HEAD || exit 9
git -C $sr apply $dst/patch.diff || { echo "RESULT $id-$k: PATCH DOES NOT APPLY"; git -C /repo worktree remove --force $sr; exit 9; }
VERIF_REPO=$sr VERIF_OUT=/tmp/seedout-$id-$k VERIF_TIER=$tier timeout 3000 /verif/bin/vp check $id --tier $tier > $dst/check-$id-$tier.log 2>&1; ec=$?
git -C /repo worktree remove --force $sr; rm -rf /tmp/seedout-$id-$k
echo "RESULT $id-$k: $id:$tier:exit=$ec"
