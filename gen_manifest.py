#!/usr/bin/env python3
"""Regenerates MANIFEST.json from checks.json (claimed checks) and levels.json (texts)."""
import json, subprocess
checks = json.load(open('/verif/checks.json'))
levels = json.load(open('/verif/levels.json'))
props = [json.loads(l) for l in open('/verif/properties.jsonl')]
fixes = subprocess.run(['git','-C','/repo','log','--format=%H %s'],capture_output=True,text=True).stdout.splitlines()
man = {
 "version": 1,
 "setup_cmd": "cd /verif/engine && GOFLAGS=-mod=mod GOPROXY=off GOSUMDB=off GOTOOLCHAIN=local go build -o ../bin/vp ./cmd/vp && cd /verif && bin/vp selftest",
 "hooks": {
  "guard": "verif",
  "enable": "no source hooks: harnesses are virtual overlay files /repo/<pkg>/zz_verif_*.go (go/packages Overlay for the symbolic engine, `go test -tags verif -overlay` for native replay); nothing is written to /repo",
  "baseline_off_cmd": "cd /repo && GOFLAGS=-mod=mod go test -vet=off -count=1 ./...",
  "source_commits": [],
  "add_only": True
 },
 "engines": [{"name": "gosx", "path": "/verif/engine", "serves_properties": sorted(checks.keys()),
   "kind_free_text": "symbolic executor for Go SSA (fork of golang.org/x/tools/go/ssa/interp) + SMT (z3 4.8.12, z3 5.1, cvc5); bounded, exhaustive path exploration; native replay of models"}],
 "checks": [],
 "notes": "Solver-based bounded checking of the real code; see DESIGN.md. Exit codes: 0 held, 1 VIOLATION (natively reproduced), 2 inconclusive (unknown/budget/vacuous), 3 engine mismatch.",
 "not_applicable": []
}
for p in props:
    pid = p['id']
    if pid in checks:
        lv = levels.get(pid, {})
        man['checks'].append({
          "property_id": pid,
          "quick_cmd": f"bin/vp check {pid} --tier quick",
          "thorough_cmd": f"bin/vp check {pid} --tier thorough",
          "evidence_file": f"/verif/evidence/{pid}.json",
          "replay_cmd_template": "bin/vp replay {path}",
          "engine": "gosx",
          "level_claimed": {"category": "model_checking", "text": lv.get('text', checks[pid].get('title','')), "design_ref": lv.get('design_ref', f"DESIGN.md section 4 {pid}")},
          "level_note": lv.get('note', "Trusted: go/ssa SSA construction, the symbolic interpreter (validated per run by native replay of sampled paths), the SMT solvers. Bounds and stubs are listed in the evidence file."),
          "technique": lv.get('technique', "bounded symbolic execution of the Go SSA of the real code; every branch/assertion decided by an SMT solver (z3, cvc5 fallback); counterexamples replayed natively")
        })
    else:
        man['not_applicable'].append({"property_id": pid, "reason": levels.get(pid, {}).get('na', "check not yet built in this session (solver-based harness pending)")})
json.dump(man, open('/verif/MANIFEST.json','w'), indent=1)
print("checks:", [c['property_id'] for c in man['checks']], "n/a:", [c['property_id'] for c in man['not_applicable']])
