package main

func checkMain(args []string) int    { return 2 }
func replayMain(args []string) int   { return 2 }
func selftestMain(args []string) int { return 0 }
