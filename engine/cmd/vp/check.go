package main

import (
	"bufio"
	"bytes"
	"crypto/sha256"
	"encoding/hex"
	"encoding/json"
	"flag"
	"fmt"
	"os"
	"os/exec"
	"path/filepath"
	"runtime"
	"sort"
	"strconv"
	"strings"
	"time"

	"gosx/interp"
)

type HarnessCfg struct {
	ID       string         `json:"id"`
	Quick    map[string]int `json:"quick"`
	Thorough map[string]int `json:"thorough"`
	Reach    []string       `json:"reach"`
	MaxSteps int64          `json:"max_steps"`
	Note     string         `json:"note"`
	ThoroughOnly bool       `json:"thorough_only"`
	NoTrace  bool           `json:"no_trace"`
}

type CheckCfg struct {
	Title       string       `json:"title"`
	Harnesses   []HarnessCfg `json:"harnesses"`
	Assumptions []string     `json:"assumptions"`
	Stubs       []string     `json:"stubs"`
	Outside     []string     `json:"outside"`
}

var outDir = envOr("VERIF_OUT", verifDir)

func loadChecks() (map[string]CheckCfg, error) {
	data, err := os.ReadFile(filepath.Join(verifDir, "checks.json"))
	if err != nil {
		return nil, err
	}
	var m map[string]CheckCfg
	if err := json.Unmarshal(data, &m); err != nil {
		return nil, fmt.Errorf("checks.json: %v", err)
	}
	return m, nil
}

type KnownEntry struct {
	Property string
	Harness  string
	Pred     interp.KnownPred
	Desc     string
}

// known_findings.txt line format:
//   finding: property=C01 harness=js.VerifLexW label=<substring> tag=b kind=input-prefix bytes=23 arg.x=1 :: description
//   fixed: property=C01 <commit> <what failed>
func loadKnown(prop string) ([]KnownEntry, error) {
	f, err := os.Open(filepath.Join(verifDir, "known_findings.txt"))
	if err != nil {
		if os.IsNotExist(err) {
			return nil, nil
		}
		return nil, err
	}
	defer f.Close()
	var out []KnownEntry
	sc := bufio.NewScanner(f)
	n := 0
	for sc.Scan() {
		line := strings.TrimSpace(sc.Text())
		if !strings.HasPrefix(line, "finding:") {
			continue
		}
		n++
		line = strings.TrimPrefix(line, "finding:")
		desc := ""
		if i := strings.Index(line, "::"); i >= 0 {
			desc = strings.TrimSpace(line[i+2:])
			line = line[:i]
		}
		e := KnownEntry{Desc: desc}
		e.Pred.Arg = map[string]int64{}
		for _, kv := range strings.Fields(line) {
			p := strings.SplitN(kv, "=", 2)
			if len(p) != 2 {
				continue
			}
			switch {
			case p[0] == "property":
				e.Property = p[1]
			case p[0] == "harness":
				e.Harness = p[1]
			case p[0] == "label":
				e.Pred.Label = strings.ReplaceAll(p[1], "_", " ")
			case p[0] == "tag":
				e.Pred.Tag = p[1]
			case p[0] == "kind":
				e.Pred.Kind = p[1]
			case p[0] == "bytes":
				b, err := hex.DecodeString(p[1])
				if err != nil {
					return nil, fmt.Errorf("known_findings: bad hex %q", p[1])
				}
				e.Pred.Bytes = b
			case p[0] == "eq" || p[0] == "ne":
				// eq=3:4,4:5  byte positions (of tag) that are equal / different
				for _, pr := range strings.Split(p[1], ",") {
					ij := strings.SplitN(pr, ":", 2)
					if len(ij) == 2 {
						a, _ := strconv.Atoi(ij[0])
						b, _ := strconv.Atoi(ij[1])
						if p[0] == "eq" {
							e.Pred.Eq = append(e.Pred.Eq, [2]int{a, b})
						} else {
							e.Pred.Ne = append(e.Pred.Ne, [2]int{a, b})
						}
					}
				}
			case strings.HasPrefix(p[0], "ge."):
				v, _ := strconv.ParseInt(p[1], 10, 64)
				if e.Pred.Ge == nil {
					e.Pred.Ge = map[string]int64{}
				}
				e.Pred.Ge[p[0][3:]] = v
			case strings.HasPrefix(p[0], "le."):
				v, _ := strconv.ParseInt(p[1], 10, 64)
				if e.Pred.Le == nil {
					e.Pred.Le = map[string]int64{}
				}
				e.Pred.Le[p[0][3:]] = v
			case strings.HasPrefix(p[0], "arg."):
				v, _ := strconv.ParseInt(p[1], 10, 64)
				e.Pred.Arg[p[0][4:]] = v
			}
		}
		e.Pred.ID = fmt.Sprintf("%s#%d %s", e.Property, n, desc)
		if e.Pred.Kind == "" {
			e.Pred.Kind = "args"
		}
		if e.Property == prop {
			out = append(out, e)
		}
	}
	return out, nil
}

type Evidence struct {
	PropertyID  string                 `json:"property_id"`
	Tier        string                 `json:"tier"`
	Seed        int                    `json:"seed"`
	Level       string                 `json:"level"`
	Coverage    map[string]interface{} `json:"coverage"`
	Assumptions []string               `json:"assumptions"`
	WallS       float64                `json:"wall_s"`
	Violations  int                    `json:"violations"`
}

func srcHash(paths []string) string {
	h := sha256.New()
	sort.Strings(paths)
	for _, p := range paths {
		b, _ := os.ReadFile(p)
		h.Write([]byte(p))
		h.Write(b)
	}
	return hex.EncodeToString(h.Sum(nil))[:16]
}

func checkMain(args []string) int {
	fs := flag.NewFlagSet("check", flag.ExitOnError)
	tier := fs.String("tier", envOr("VERIF_TIER", "quick"), "quick|thorough")
	nw := fs.Int("w", 0, "workers")
	only := fs.String("only", "", "run only harnesses whose id contains this")
	noNative := fs.Bool("no-native", false, "skip native trace validation (development)")
	var id string
	if len(args) > 0 && !strings.HasPrefix(args[0], "-") {
		id = args[0]
		args = args[1:]
	}
	fs.Parse(args)
	if id == "" && fs.NArg() > 0 {
		id = fs.Arg(0)
	}
	if id == "" {
		usage()
	}
	seed, _ := strconv.Atoi(os.Getenv("VERIF_SEED"))
	t0 := time.Now()
	checks, err := loadChecks()
	if err != nil {
		fmt.Fprintln(os.Stderr, "error:", err)
		return 2
	}
	cfg, ok := checks[id]
	if !ok {
		fmt.Fprintf(os.Stderr, "no check registered for %s\n", id)
		return 2
	}
	known, err := loadKnown(id)
	if err != nil {
		fmt.Fprintln(os.Stderr, "error:", err)
		return 2
	}
	dirSet := map[string]bool{}
	var hs []HarnessCfg
	for _, h := range cfg.Harnesses {
		if *only != "" && !strings.Contains(h.ID, *only) {
			continue
		}
		if h.ThoroughOnly && *tier != "thorough" {
			continue
		}
		hs = append(hs, h)
		dirSet[strings.SplitN(h.ID, ".", 2)[0]] = true
	}
	var dirs []string
	for d := range dirSet {
		dirs = append(dirs, d)
	}
	sort.Strings(dirs)
	workers := *nw
	if workers == 0 {
		workers = runtime.NumCPU()
		if workers > 16 {
			workers = 16
		}
	}
	pool, err := newPool(workers, dirs)
	if err != nil {
		fmt.Fprintln(os.Stderr, "error:", err)
		return 2
	}
	defer pool.stop()

	inconclusive := []string{}
	var budgetCases []Trace
	var budgetNotes []string
	var sums []*Summary
	var allTraces []Trace
	type cand struct {
		h string
		p map[string]int
		v interp.Violation
	}
	var cands []cand
	knownHits := map[string]int{}
	totalPaths, totalDec := 0, int64(0)
	var samples []interface{}
	reachAll := map[string]int{}
	bounds := map[string]interface{}{}
	gwrites := map[string]int{}
	stoppedEarly := ""
	for _, h := range hs {
		params := h.Quick
		if *tier == "thorough" && h.Thorough != nil {
			params = h.Thorough
		}
		if params == nil {
			params = map[string]int{}
		}
		var kp []interp.KnownPred
		for _, k := range known {
			if k.Harness == "" || k.Harness == h.ID {
				kp = append(kp, k.Pred)
			}
		}
		traceEvery := 10
		if *tier == "thorough" {
			traceEvery = 4
		}
		if h.NoTrace {
			traceEvery = 0 // over-approximating harness (abstracted arithmetic): models are not replayable
		}
		sum := pool.explore(h.ID, params, ExploreOpts{TraceEvery: traceEvery, Known: kp, MaxSteps: h.MaxSteps, Seed: int64(seed)})
		fmt.Fprintln(os.Stderr, sum)
		sums = append(sums, sum)
		bounds[fmt.Sprintf("%s#%d", h.ID, len(bounds))] = params
		totalPaths += sum.Paths
		totalDec += sum.Decisions
		if sum.EngineErrs > 0 {
			inconclusive = append(inconclusive, fmt.Sprintf("%s: %d engine errors (%s)", h.ID, sum.EngineErrs, strings.Join(sum.EngineMsgs, "; ")))
		}
		if sum.Budget > 0 {
			budgetCases = append(budgetCases, sum.BudgetCases...)
			budgetNotes = append(budgetNotes, fmt.Sprintf("%s: %d paths hit the step/depth budget (unwinding assertion)", h.ID, sum.Budget))
		}
		if sum.PathLimitHit {
			inconclusive = append(inconclusive, h.ID+": path limit hit")
		}
		if sum.Paths == 0 {
			inconclusive = append(inconclusive, h.ID+": vacuous (no completed path)")
		}
		for _, l := range h.Reach {
			if sum.Reach[l] == 0 {
				inconclusive = append(inconclusive, fmt.Sprintf("%s: vacuous: reach label %q not covered", h.ID, l))
			}
		}
		for l, n := range sum.Reach {
			reachAll[h.ID+":"+l] = n
		}
		for gw, n := range sum.GlobalWrites {
			gwrites[gw] += n
		}
		for _, v := range sum.Viol {
			if v.Known != "" {
				knownHits[v.Known] += sum.ViolCount[v.Kind+"|"+v.Label+"|"+v.Known]
				continue
			}
			cands = append(cands, cand{h.ID, params, v})
		}
		// cap traces per harness
		tr := sum.Traces
		maxTr := 400
		if *tier == "thorough" {
			maxTr = 3000
		}
		if len(tr) > maxTr {
			step := len(tr) / maxTr
			var t2 []Trace
			for i := 0; i < len(tr); i += step + 1 {
				t2 = append(t2, tr[i])
			}
			tr = t2
		}
		allTraces = append(allTraces, tr...)
		for i, s := range sum.Samples {
			if i < 4 {
				samples = append(samples, s)
			}
		}
		if len(cands) > 0 {
			// fail fast: unlisted violation candidates exist; confirm them natively and report now
			// instead of exploring the remaining harnesses (which a defect can make very slow)
			stoppedEarly = h.ID
			break
		}
	}
	if stoppedEarly != "" {
		fmt.Fprintf(os.Stderr, "stopping after %s: violation candidates found, remaining harnesses not explored\n", stoppedEarly)
	}
	st := pool.stats()
	if st.St.Unknowns > 0 {
		inconclusive = append(inconclusive, fmt.Sprintf("%d solver queries returned unknown on every back end", st.St.Unknowns))
	}
	if st.St.CapHits > 0 {
		inconclusive = append(inconclusive, fmt.Sprintf("%d concretisations exceeded the value cap", st.St.CapHits))
	}

	// a path that exhausts the step budget is either a hang of the real code (a violation:
	// replayed natively with a 20 s watchdog) or an unwinding bound that is too small (inconclusive)
	hangs := []Trace{}
	if len(budgetCases) > 0 {
		if *noNative {
			inconclusive = append(inconclusive, budgetNotes...)
		} else if res, err := nativeRun(budgetCases); err != nil {
			inconclusive = append(inconclusive, "native replay of budget hits failed: "+err.Error())
		} else {
			nh := 0
			for i, r := range res {
				fmt.Fprintf(os.Stderr, "budget case %s inputs=%v: native outcome %s %s\n", budgetCases[i].Harness, budgetCases[i].Inputs, r.Status, r.Label)
				if r.Status == "hang" || r.Status == "crash" {
					hangs = append(hangs, budgetCases[i])
					nh++
				}
			}
			if nh < len(budgetCases) {
				inconclusive = append(inconclusive, budgetNotes...)
			}
		}
	}
	// native validation: sampled traces + every violation candidate
	validated, mismatches := 0, []string{}
	confirmed := []cand{}
	if !*noNative {
		var cases []Trace
		cases = append(cases, allTraces...)
		for _, c := range cands {
			st := "assert"
			if c.v.Kind == "panic" {
				st = "panic"
			}
			cases = append(cases, Trace{Harness: c.h, Params: c.p, Model: c.v.Model, Status: st, Label: c.v.Label, Observe: nil, Inputs: c.v.Inputs})
		}
		results, err := nativeRun(cases)
		if err != nil {
			inconclusive = append(inconclusive, "native replay failed: "+err.Error())
		} else {
			for i, c := range cases {
				r := results[i]
				isCand := i >= len(allTraces)
				if isCand {
					cd := cands[i-len(allTraces)]
					okc := false
					switch cd.v.Kind {
					case "assert":
						okc = r.Status == "assert" && r.Label == cd.v.Label || r.Status == "crash"
					case "panic":
						okc = r.Status == "panic" || r.Status == "crash" || r.Status == "hang"
					}
					if okc {
						confirmed = append(confirmed, cd)
					} else {
						mismatches = append(mismatches, fmt.Sprintf("%s: engine found %s %q with inputs %v but native run gave %s %q", cd.h, cd.v.Kind, cd.v.Label, cd.v.Inputs, r.Status, r.Label))
					}
					continue
				}
				if r.Status != c.Status {
					mismatches = append(mismatches, fmt.Sprintf("%s inputs %v: engine status %s, native %s %q", c.Harness, c.Inputs, c.Status, r.Status, r.Label))
					continue
				}
				if c.Status == "ok" && !equalStrs(c.Observe, r.Observe) {
					mismatches = append(mismatches, fmt.Sprintf("%s inputs %v: observation traces differ:\n  engine: %v\n  native: %v", c.Harness, c.Inputs, c.Observe, r.Observe))
					continue
				}
				validated++
			}
		}
	} else {
		confirmed = cands
	}
	if len(gwrites) > 0 {
		for gw, n := range gwrites {
			confirmedGW := fmt.Sprintf("library code writes package-level state: %s (x%d)", gw, n)
			fmt.Fprintln(os.Stderr, "GLOBAL-WRITE:", confirmedGW)
		}
	}

	// report
	exit := 0
	for _, k := range known {
		if knownHits[k.Pred.ID] > 0 {
			fmt.Printf("KNOWN-FINDING: property=%s %s\n", id, k.Desc)
		}
	}
	nviol := 0
	if len(confirmed) > 0 {
		os.MkdirAll(filepath.Join(outDir, "replays", id), 0755)
		for i, c := range confirmed {
			nviol++
			path := filepath.Join(outDir, "replays", id, fmt.Sprintf("%s-%d.json", strings.ReplaceAll(c.h, ".", "_"), i))
			st := "assert"
			if c.v.Kind == "panic" {
				st = "panic"
			}
			js, _ := json.MarshalIndent(map[string]interface{}{"property": id, "harness": c.h, "params": c.p, "model": c.v.Model, "status": st, "kind": c.v.Kind, "label": c.v.Label, "msg": c.v.Msg, "inputs": c.v.Inputs, "where": c.v.Where}, "", " ")
			os.WriteFile(path, js, 0644)
			fmt.Fprintf(os.Stderr, "violation: %s %s %q inputs=%v %s\n", c.h, c.v.Kind, c.v.Label, c.v.Inputs, c.v.Msg)
			fmt.Printf("VIOLATION property=%s replay=%s\n", id, path)
		}
		exit = 1
	}
	for i, hc := range hangs {
		os.MkdirAll(filepath.Join(outDir, "replays", id), 0755)
		path := filepath.Join(outDir, "replays", id, fmt.Sprintf("%s-hang-%d.json", strings.ReplaceAll(hc.Harness, ".", "_"), i))
		js, _ := json.MarshalIndent(map[string]interface{}{"property": id, "harness": hc.Harness, "params": hc.Params, "model": hc.Model, "status": "hang", "kind": "hang", "label": hc.Label, "inputs": hc.Inputs}, "", " ")
		os.WriteFile(path, js, 0644)
		fmt.Fprintf(os.Stderr, "violation: %s does not terminate (engine step budget exhausted, native run exceeded the 20 s watchdog) inputs=%v %s\n", hc.Harness, hc.Inputs, hc.Label)
		fmt.Printf("VIOLATION property=%s replay=%s\n", id, path)
		nviol++
		exit = 1
	}
	if id == "C20" && len(gwrites) > 0 {
		// global writes are the C20 violation; replay = first sample path
		os.MkdirAll(filepath.Join(outDir, "replays", id), 0755)
		path := filepath.Join(outDir, "replays", id, "global-writes.json")
		js, _ := json.MarshalIndent(gwrites, "", " ")
		os.WriteFile(path, js, 0644)
		fmt.Printf("VIOLATION property=%s replay=%s\n", id, path)
		nviol++
		exit = 1
	}
	if len(mismatches) > 0 {
		for _, m := range mismatches {
			fmt.Fprintln(os.Stderr, "ENGINE-MISMATCH:", m)
		}
		if exit == 0 {
			exit = 3
		}
	}
	if len(inconclusive) > 0 {
		for _, m := range inconclusive {
			fmt.Fprintln(os.Stderr, "INCONCLUSIVE:", m)
		}
		if exit == 0 {
			exit = 2
		}
	}

	// evidence
	var files []string
	for _, d := range dirs {
		fl, _ := filepath.Glob(filepath.Join(repoDir, pkgDirs[d], "*.go"))
		for _, f := range fl {
			if !strings.HasSuffix(f, "_test.go") {
				files = append(files, f)
			}
		}
	}
	var libFuncs []string
	for _, f := range st.Funcs {
		if strings.Contains(f, "tdewolff/parse") && !strings.Contains(f, ".Verif") && !strings.Contains(f, ".vn") && !strings.Contains(f, ".ref") {
			libFuncs = append(libFuncs, strings.ReplaceAll(f, "github.com/tdewolff/parse/v2", "parse"))
		}
	}
	if len(samples) == 0 {
		samples = append(samples, "none")
	}
	harnessIDs := []string{}
	for _, h := range hs {
		harnessIDs = append(harnessIDs, h.ID)
	}
	ev := Evidence{PropertyID: id, Tier: *tier, Seed: seed, Level: "model_checking", WallS: time.Since(t0).Seconds(), Violations: nviol,
		Assumptions: append(append([]string{}, cfg.Assumptions...), "SMT solvers are sound: z3 5.1.0 (z3-new, primary), fallback portfolio cvc5 1.0 --solve-bv-as-int=sum, z3 4.8.12, cvc5", "the symbolic interpreter (fork of go/ssa/interp) agrees with the Go compiler; checked on the sampled traces replayed natively"),
		Coverage: map[string]interface{}{
			"states":                        totalPaths,
			"transitions":                   totalDec,
			"traces_validated_against_impl": validated,
			"samples":                       samples,
			"exhaustive":                    len(inconclusive) == 0,
			"explanation":                   "states = completed symbolic paths (each an equivalence class of inputs, decided by the SMT solver); transitions = symbolic branch decisions along them; exploration is exhaustive within the bounds given under 'bounds'",
			"harnesses":                     harnessIDs,
			"bounds":                        bounds,
			"functions_encoded":             libFuncs,
			"source_hash":                   srcHash(files),
			"queries":                       map[string]interface{}{"smt": st.St.Queries, "decided_by_current_model": st.St.ModelHits, "fallback_portfolio": st.St.Fallbacks, "unknown": st.St.Unknowns, "assertions_checked": st.St.AssertsChk, "assertions_inherited_from_prefix": st.St.AssertsInh, "region_decisions": st.St.Regions, "fastpath_implied": st.St.FastImplied, "fastpath_forks": st.St.FastForks},
			"solver_time_s":                 st.SolverS,
			"ssa_steps":                     st.St.Steps,
			"reach_labels":                  reachAll,
			"known_findings_matched":        knownHits,
			"inconclusive":                  inconclusive,
			"engine_mismatches":             mismatches,
			"stubs":                         cfg.Stubs,
			"outside_the_claim":             cfg.Outside,
			"global_writes":                 gwrites,
		},
	}
	os.MkdirAll(filepath.Join(outDir, "evidence"), 0755)
	js, _ := json.MarshalIndent(ev, "", " ")
	os.WriteFile(filepath.Join(outDir, "evidence", id+".json"), js, 0644)
	fmt.Fprintf(os.Stderr, "%s %s: paths=%d decisions=%d queries=%d solver=%.1fs validated=%d violations=%d known=%d exit=%d wall=%.1fs\n", id, *tier, totalPaths, totalDec, st.St.Queries, st.SolverS, validated, nviol, len(knownHits), exit, time.Since(t0).Seconds())
	return exit
}

func equalStrs(a, b []string) bool {
	if len(a) != len(b) {
		return false
	}
	for i := range a {
		if a[i] != b[i] {
			return false
		}
	}
	return true
}

type NativeResult struct {
	Index   int      `json:"index"`
	Status  string   `json:"status"`
	Label   string   `json:"label"`
	Observe []string `json:"observe"`
	Reach   []string `json:"reach"`
}

// nativeRun replays cases against the natively compiled library (go test -overlay).
func nativeRun(cases []Trace) ([]NativeResult, error) {
	results := make([]NativeResult, len(cases))
	byDir := map[string][]int{}
	for i, c := range cases {
		d := strings.SplitN(c.Harness, ".", 2)[0]
		byDir[d] = append(byDir[d], i)
	}
	tmp, err := os.MkdirTemp("", "vpreplay")
	if err != nil {
		return nil, err
	}
	defer os.RemoveAll(tmp)
	for dir, idxs := range byDir {
		ov, _, err := overlayFiles(map[string]bool{dir: true})
		if err != nil {
			return nil, err
		}
		tmpl, err := os.ReadFile(filepath.Join(verifDir, "harness", "replay_test.go.tmpl"))
		if err != nil {
			return nil, err
		}
		base := filepath.Join(repoDir, pkgDirs[dir])
		ov[filepath.Join(base, "zz_verif_replay_test.go")] = bytes.ReplaceAll(tmpl, []byte("PKGNAME"), []byte(pkgNameOf(dir)))
		repl := map[string]string{}
		n := 0
		for virt, src := range ov {
			real := filepath.Join(tmp, fmt.Sprintf("%s_%d_%s", dir, n, filepath.Base(virt)))
			n++
			if err := os.WriteFile(real, src, 0644); err != nil {
				return nil, err
			}
			repl[virt] = real
		}
		ovjs, _ := json.Marshal(map[string]interface{}{"Replace": repl})
		ovPath := filepath.Join(tmp, dir+"_overlay.json")
		os.WriteFile(ovPath, ovjs, 0644)
		type nc struct {
			Harness string         `json:"harness"`
			Params  map[string]int `json:"params"`
			Model   interp.Model   `json:"model"`
		}
		var ncs []nc
		for _, i := range idxs {
			ncs = append(ncs, nc{strings.SplitN(cases[i].Harness, ".", 2)[1], cases[i].Params, cases[i].Model})
		}
		cjs, _ := json.Marshal(ncs)
		casePath := filepath.Join(tmp, dir+"_cases.json")
		os.WriteFile(casePath, cjs, 0644)
		outPath := filepath.Join(tmp, dir+"_out.txt")
		pkgPat := "./" + pkgDirs[dir]
		if pkgDirs[dir] == "" {
			pkgPat = "."
		}
		// build the test binary once, run it (restarting after a crash)
		bin := filepath.Join(tmp, dir+".test")
		build := exec.Command("go", "test", "-c", "-o", bin, "-tags", "verif", "-vet=off", "-overlay", ovPath, pkgPat)
		build.Dir = repoDir
		build.Env = append(os.Environ(), "GOFLAGS=-mod=mod", "GOPROXY=off", "GOSUMDB=off", "GOTOOLCHAIN=local")
		if out, err := build.CombinedOutput(); err != nil {
			return nil, fmt.Errorf("native build of %s failed: %v\n%s", dir, err, out)
		}
		start := 0
		for start < len(ncs) {
			run := exec.Command(bin, "-test.run", "^TestVerifReplay$", "-test.count=1", "-test.timeout=30m")
			run.Dir = base
			run.Env = append(os.Environ(), "VERIF_REPLAY="+casePath, "VERIF_REPLAY_OUT="+outPath, fmt.Sprintf("VERIF_REPLAY_START=%d", start))
			outb, runErr := run.CombinedOutput()
			data, _ := os.ReadFile(outPath)
			lastBegin, lastEnd := -1, -1
			for _, line := range strings.Split(string(data), "\n") {
				if strings.HasPrefix(line, "BEGIN ") {
					lastBegin, _ = strconv.Atoi(line[6:])
				} else if strings.HasPrefix(line, "END ") {
					var r NativeResult
					if json.Unmarshal([]byte(line[4:]), &r) == nil {
						results[idxs[r.Index]] = r
						lastEnd = r.Index
					}
				}
			}
			if runErr == nil && lastEnd == len(ncs)-1 {
				break
			}
			if lastBegin > lastEnd {
				// process died inside case lastBegin
				tail := string(outb)
				if len(tail) > 300 {
					tail = tail[:300]
				}
				results[idxs[lastBegin]] = NativeResult{Index: lastBegin, Status: "crash", Label: firstLine(tail)}
				start = lastBegin + 1
				continue
			}
			if runErr != nil {
				return nil, fmt.Errorf("native run of %s failed: %v\n%s", dir, runErr, outb)
			}
			break
		}
	}
	return results, nil
}

func firstLine(s string) string {
	if i := strings.Index(s, "\n"); i >= 0 {
		return s[:i]
	}
	return s
}

func replayMain(args []string) int {
	if len(args) < 1 {
		usage()
	}
	data, err := os.ReadFile(args[0])
	if err != nil {
		fmt.Fprintln(os.Stderr, err)
		return 2
	}
	var rec struct {
		Property string         `json:"property"`
		Harness  string         `json:"harness"`
		Params   map[string]int `json:"params"`
		Model    interp.Model   `json:"model"`
		Status   string         `json:"status"`
		Label    string         `json:"label"`
		Inputs   map[string]string `json:"inputs"`
	}
	if err := json.Unmarshal(data, &rec); err != nil {
		fmt.Fprintln(os.Stderr, err)
		return 2
	}
	res, err := nativeRun([]Trace{{Harness: rec.Harness, Params: rec.Params, Model: rec.Model}})
	if err != nil {
		fmt.Fprintln(os.Stderr, err)
		return 2
	}
	r := res[0]
	fmt.Printf("harness=%s inputs=%v\nnative outcome: %s %s\nobservations: %v\n", rec.Harness, rec.Inputs, r.Status, r.Label, r.Observe)
	if r.Status == "assert" || r.Status == "panic" || r.Status == "crash" || r.Status == "hang" {
		fmt.Printf("VIOLATION property=%s replay=%s\n", rec.Property, args[0])
		return 1
	}
	return 0
}

// selftestMain validates the reference oracles natively against the standard library
// (go test -tags verif -overlay, tests named TestVerifSelf*).
func selftestMain(args []string) int {
	tmp, err := os.MkdirTemp("", "vpself")
	if err != nil {
		fmt.Fprintln(os.Stderr, err)
		return 2
	}
	defer os.RemoveAll(tmp)
	rc := 0
	for _, dir := range []string{"json", "root"} {
		ov, _, err := overlayFilesT(map[string]bool{dir: true}, true)
		if err != nil {
			fmt.Fprintln(os.Stderr, err)
			return 2
		}
		repl := map[string]string{}
		n := 0
		for virt, src := range ov {
			real := filepath.Join(tmp, fmt.Sprintf("%s_%d_%s", dir, n, filepath.Base(virt)))
			n++
			os.WriteFile(real, src, 0644)
			repl[virt] = real
		}
		ovjs, _ := json.Marshal(map[string]interface{}{"Replace": repl})
		ovPath := filepath.Join(tmp, dir+"_overlay.json")
		os.WriteFile(ovPath, ovjs, 0644)
		pkgPat := "./" + pkgDirs[dir]
		if pkgDirs[dir] == "" {
			pkgPat = "."
		}
		cmd := exec.Command("go", "test", "-tags", "verif", "-vet=off", "-count=1", "-overlay", ovPath, "-run", "^TestVerifSelf", "-v", pkgPat)
		cmd.Dir = repoDir
		cmd.Env = append(os.Environ(), "GOFLAGS=-mod=mod", "GOPROXY=off", "GOSUMDB=off", "GOTOOLCHAIN=local")
		out, err := cmd.CombinedOutput()
		for _, l := range strings.Split(string(out), "\n") {
			if strings.Contains(l, "TestVerifSelf") || strings.Contains(l, "compared") || strings.HasPrefix(l, "FAIL") || strings.HasPrefix(l, "ok") || strings.Contains(l, "refValid") || strings.Contains(l, "ref") {
				fmt.Println(l)
			}
		}
		if err != nil {
			rc = 1
		}
	}
	return rc
}
