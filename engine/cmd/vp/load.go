package main

import (
	"bytes"
	"fmt"
	"os"
	"path/filepath"
	"regexp"
	"sort"
	"strings"

	"golang.org/x/tools/go/packages"
	"golang.org/x/tools/go/ssa"
	"golang.org/x/tools/go/ssa/ssautil"

	"gosx/interp"
)

const modPath = "github.com/tdewolff/parse/v2"

var repoDir = envOr("VERIF_REPO", "/repo")
var verifDir = envOr("VERIF_DIR", "/verif")

func envOr(k, d string) string {
	if v := os.Getenv(k); v != "" {
		return v
	}
	return d
}

// pkgDirs maps harness directory name to the repo-relative package directory.
var pkgDirs = map[string]string{
	"root": "", "buffer": "buffer", "css": "css", "html": "html", "js": "js", "json": "json", "xml": "xml", "strconv": "strconv",
}

var pkgNames = map[string]string{"root": "parse"}

func pkgNameOf(dir string) string {
	if n, ok := pkgNames[dir]; ok {
		return n
	}
	return dir
}

// overlayFiles builds the virtual harness files for all packages:
// /repo/<pkg>/zz_verif_rt.go, zz_verif_<name>.go, zz_verif_reg.go.
func overlayFiles(only map[string]bool) (map[string][]byte, map[string][]string, error) {
	return overlayFilesT(only, false)
}

func overlayFilesT(only map[string]bool, withTests bool) (map[string][]byte, map[string][]string, error) {
	ov := map[string][]byte{}
	harnesses := map[string][]string{} // dir -> harness function names
	tmpl, err := os.ReadFile(filepath.Join(verifDir, "harness", "rt.go.tmpl"))
	if err != nil {
		return nil, nil, err
	}
	re := regexp.MustCompile(`(?m)^func (Verif[A-Za-z0-9_]*)\(\)`)
	for dir, rel := range pkgDirs {
		if only != nil && !only[dir] {
			continue
		}
		files, _ := filepath.Glob(filepath.Join(verifDir, "harness", dir, "*.go"))
		if len(files) == 0 {
			continue
		}
		base := filepath.Join(repoDir, rel)
		ov[filepath.Join(base, "zz_verif_rt.go")] = bytes.ReplaceAll(tmpl, []byte("PKGNAME"), []byte(pkgNameOf(dir)))
		sort.Strings(files)
		var names []string
		for _, f := range files {
			src, err := os.ReadFile(f)
			if err != nil {
				return nil, nil, err
			}
			if strings.HasSuffix(f, "_test.go") {
				if withTests {
					ov[filepath.Join(base, "zz_verif_"+filepath.Base(f))] = src
				}
				continue
			}
			ov[filepath.Join(base, "zz_verif_"+filepath.Base(f))] = src
			for _, m := range re.FindAllSubmatch(src, -1) {
				names = append(names, string(m[1]))
			}
		}
		sort.Strings(names)
		harnesses[dir] = names
		var sb strings.Builder
		fmt.Fprintf(&sb, "//go:build verif\n\npackage %s\n\nvar vnHarnesses = map[string]func(){\n", pkgNameOf(dir))
		for _, n := range names {
			fmt.Fprintf(&sb, "\t%q: %s,\n", n, n)
		}
		sb.WriteString("}\n")
		ov[filepath.Join(base, "zz_verif_reg.go")] = []byte(sb.String())
	}
	return ov, harnesses, nil
}

type Program struct {
	Eng   *interp.Engine
	Prog  *ssa.Program
	Pkgs  map[string]*ssa.Package // harness dir -> package
	Funcs map[string][]string
}

func importPath(dir string) string {
	if pkgDirs[dir] == "" {
		return modPath
	}
	return modPath + "/" + pkgDirs[dir]
}

func loadProgram(only map[string]bool) (*Program, error) {
	ov, harn, err := overlayFiles(only)
	if err != nil {
		return nil, err
	}
	var patterns []string
	for dir := range harn {
		if pkgDirs[dir] == "" {
			patterns = append(patterns, ".")
		} else {
			patterns = append(patterns, "./"+pkgDirs[dir])
		}
	}
	sort.Strings(patterns)
	cfg := &packages.Config{
		Mode:       packages.LoadAllSyntax,
		Dir:        repoDir,
		Overlay:    ov,
		BuildFlags: []string{"-tags=verif", "-mod=mod"},
		Env:        append(os.Environ(), "GOFLAGS=-mod=mod", "GOPROXY=off", "GOSUMDB=off", "GOTOOLCHAIN=local"),
	}
	pkgs, err := packages.Load(cfg, patterns...)
	if err != nil {
		return nil, err
	}
	if packages.PrintErrors(pkgs) > 0 {
		return nil, fmt.Errorf("package load errors")
	}
	prog, spkgs := ssautil.AllPackages(pkgs, ssa.InstantiateGenerics)
	prog.Build()
	for _, p := range []string{"io", "bytes", "strconv", "unicode/utf8", "math", "encoding/binary", "encoding/base64", "unicode", "math/bits", "strings", "unicode/utf16"} {
		interp.InitWhitelist[p] = true
	}
	P := &Program{Prog: prog, Pkgs: map[string]*ssa.Package{}, Funcs: harn}
	var initPkgs []*ssa.Package
	for dir := range harn {
		ip := importPath(dir)
		interp.InitWhitelist[ip] = true
		for _, sp := range spkgs {
			if sp != nil && sp.Pkg.Path() == ip {
				P.Pkgs[dir] = sp
				initPkgs = append(initPkgs, sp)
			}
		}
	}
	// library packages imported by harness packages must be initialised too
	for _, sp := range prog.AllPackages() {
		if strings.HasPrefix(sp.Pkg.Path(), modPath) {
			interp.InitWhitelist[sp.Pkg.Path()] = true
		}
	}
	sort.Slice(initPkgs, func(i, j int) bool { return initPkgs[i].Pkg.Path() < initPkgs[j].Pkg.Path() })
	P.Eng = interp.NewEngine(prog)
	P.Eng.Init(initPkgs, modPath)
	return P, nil
}

// harnessFn resolves "dir.VerifName".
func (p *Program) harnessFn(id string) (*ssa.Function, error) {
	parts := strings.SplitN(id, ".", 2)
	if len(parts) != 2 {
		return nil, fmt.Errorf("bad harness id %q", id)
	}
	sp := p.Pkgs[parts[0]]
	if sp == nil {
		return nil, fmt.Errorf("no package for %q", id)
	}
	fn := sp.Func(parts[1])
	if fn == nil {
		return nil, fmt.Errorf("no harness function %q", id)
	}
	return fn, nil
}
