package main

import (
	"bufio"
	"encoding/json"
	"fmt"
	"os"
	"strings"

	"gosx/interp"
)

// Request sent by the driver to a worker (one JSON line).
type Request struct {
	Cmd     string          `json:"cmd"` // run | stats | quit
	Harness string          `json:"harness,omitempty"`
	Item    interp.WorkItem `json:"item"`
	Params  map[string]int  `json:"params,omitempty"`
	NoFork  bool            `json:"nofork,omitempty"`
	Known   []interp.KnownPred `json:"known,omitempty"`
	MaxSteps int64          `json:"maxsteps,omitempty"`
	TimeoutMs int           `json:"timeout_ms,omitempty"`
}

type Response struct {
	Res   *interp.PathResult `json:"res,omitempty"`
	Stats *interp.Stats      `json:"stats,omitempty"`
	Funcs []string           `json:"funcs,omitempty"`
	SolverS float64          `json:"solver_s,omitempty"`
	Err   string             `json:"err,omitempty"`
}

func workerMain(dirs []string) {
	only := map[string]bool{}
	for _, d := range dirs {
		only[d] = true
	}
	if len(only) == 0 {
		only = nil
	}
	prog, err := loadProgram(only)
	out := bufio.NewWriterSize(os.Stdout, 1<<20)
	enc := json.NewEncoder(out)
	if err != nil {
		enc.Encode(Response{Err: "load: " + err.Error()})
		out.Flush()
		os.Exit(2)
	}
	enc.Encode(Response{}) // ready
	out.Flush()
	interp.X = interp.NewExplorer(20000)
	in := bufio.NewReaderSize(os.Stdin, 1<<20)
	dec := json.NewDecoder(in)
	for {
		var req Request
		if err := dec.Decode(&req); err != nil {
			return
		}
		switch req.Cmd {
		case "quit":
			interp.X.S.Close()
			return
		case "stats":
			st := interp.X.St
			var funcs []string
			for f := range interp.X.FuncsSeen {
				if !strings.Contains(f, ".v") || true {
					funcs = append(funcs, f)
				}
			}
			enc.Encode(Response{Stats: &st, Funcs: funcs, SolverS: interp.X.S.Time.Seconds()})
			out.Flush()
		case "run":
			fn, err := prog.harnessFn(req.Harness)
			if err != nil {
				enc.Encode(Response{Err: err.Error()})
				out.Flush()
				continue
			}
			interp.Params = req.Params
			if interp.Params == nil {
				interp.Params = map[string]int{}
			}
			interp.X.NoFork = req.NoFork
			interp.X.FastOn = req.Params["nofast"] == 0
			interp.X.FastAudit = req.Params["audit"] != 0
			interp.X.Known = req.Known
			if req.MaxSteps > 0 {
				interp.X.MaxSteps = req.MaxSteps
			}
			res := prog.Eng.RunPath(fn, req.Item)
			enc.Encode(Response{Res: &res})
			out.Flush()
		default:
			enc.Encode(Response{Err: fmt.Sprintf("bad cmd %q", req.Cmd)})
			out.Flush()
		}
	}
}
