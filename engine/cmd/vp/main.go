package main

import (
	"flag"
	"fmt"
	"os"
	"strconv"
	"strings"
)

func usage() {
	fmt.Fprintln(os.Stderr, `usage:
  vp run [-w N] [-max N] [-p k=v,...] <dir.VerifHarness>   explore one harness (development)
  vp check <Cxx> [--tier quick|thorough]                   run a registered property check
  vp replay <file>                                         replay a recorded counterexample natively
  vp selftest                                              validate models/oracles natively
  vp worker [dirs...]                                      (internal)`)
	os.Exit(2)
}

func parseParams(s string) map[string]int {
	m := map[string]int{}
	if s == "" {
		return m
	}
	for _, kv := range strings.Split(s, ",") {
		p := strings.SplitN(kv, "=", 2)
		if len(p) == 2 {
			v, _ := strconv.Atoi(p[1])
			m[p[0]] = v
		}
	}
	return m
}

func main() {
	if len(os.Args) < 2 {
		usage()
	}
	switch os.Args[1] {
	case "worker":
		workerMain(os.Args[2:])
	case "run":
		fs := flag.NewFlagSet("run", flag.ExitOnError)
		nw := fs.Int("w", 16, "workers")
		max := fs.Int("max", 0, "max paths")
		ps := fs.String("p", "", "params k=v,...")
		steps := fs.Int64("steps", 0, "max SSA steps per path")
		fs.Parse(os.Args[2:])
		if fs.NArg() < 1 {
			usage()
		}
		h := fs.Arg(0)
		dir := strings.SplitN(h, ".", 2)[0]
		pool, err := newPool(*nw, []string{dir})
		if err != nil {
			fmt.Fprintln(os.Stderr, "error:", err)
			os.Exit(2)
		}
		defer pool.stop()
		sum := pool.explore(h, parseParams(*ps), ExploreOpts{MaxPaths: *max, MaxSteps: *steps})
		fmt.Println(sum)
		st := pool.stats()
		fmt.Printf("queries=%d solver=%.1fs fallbacks=%d unknowns=%d modelhits=%d steps=%d regions=%d asserts=%d/%d funcs=%d fast=%d/%d caphits=%d kills=%d\n", st.St.Queries, st.SolverS, st.St.Fallbacks, st.St.Unknowns, st.St.ModelHits, st.St.Steps, st.St.Regions, st.St.AssertsChk, st.St.AssertsInh, len(st.Funcs), st.St.FastImplied, st.St.FastForks, st.St.CapHits, st.St.Kills)
	case "check":
		os.Exit(checkMain(os.Args[2:]))
	case "replay":
		os.Exit(replayMain(os.Args[2:]))
	case "selftest":
		os.Exit(selftestMain(os.Args[2:]))
	default:
		usage()
	}
}
