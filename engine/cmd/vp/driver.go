package main

import (
	"bufio"
	"encoding/json"
	"fmt"
	"io"
	"os"
	"os/exec"
	"sort"
	"strings"
	"sync"
	"time"

	"gosx/interp"
)

type Worker struct {
	cmd *exec.Cmd
	in  io.WriteCloser
	enc *json.Encoder
	dec *json.Decoder
	w   *bufio.Writer
}

func startWorker(dirs []string) (*Worker, error) {
	self, _ := os.Executable()
	args := append([]string{"worker"}, dirs...)
	cmd := exec.Command(self, args...)
	cmd.Stderr = os.Stderr
	in, err := cmd.StdinPipe()
	if err != nil {
		return nil, err
	}
	outp, err := cmd.StdoutPipe()
	if err != nil {
		return nil, err
	}
	if err := cmd.Start(); err != nil {
		return nil, err
	}
	w := &Worker{cmd: cmd, in: in}
	w.w = bufio.NewWriterSize(in, 1<<20)
	w.enc = json.NewEncoder(w.w)
	w.dec = json.NewDecoder(bufio.NewReaderSize(outp, 1<<20))
	var ready Response
	if err := w.dec.Decode(&ready); err != nil {
		return nil, fmt.Errorf("worker start: %v", err)
	}
	if ready.Err != "" {
		return nil, fmt.Errorf("worker: %s", ready.Err)
	}
	return w, nil
}

func (w *Worker) call(req Request) (Response, error) {
	if err := w.enc.Encode(req); err != nil {
		return Response{}, err
	}
	if err := w.w.Flush(); err != nil {
		return Response{}, err
	}
	var resp Response
	if err := w.dec.Decode(&resp); err != nil {
		return Response{}, err
	}
	return resp, nil
}

func (w *Worker) stop() {
	w.enc.Encode(Request{Cmd: "quit"})
	w.w.Flush()
	w.in.Close()
	done := make(chan struct{})
	go func() { w.cmd.Wait(); close(done) }()
	select {
	case <-done:
	case <-time.After(2 * time.Second):
		w.cmd.Process.Kill()
	}
}

type Pool struct {
	workers []*Worker
	dirs    []string
}

func newPool(n int, dirs []string) (*Pool, error) {
	p := &Pool{dirs: dirs}
	var mu sync.Mutex
	var wg sync.WaitGroup
	var firstErr error
	for i := 0; i < n; i++ {
		wg.Add(1)
		go func() {
			defer wg.Done()
			w, err := startWorker(dirs)
			mu.Lock()
			defer mu.Unlock()
			if err != nil {
				if firstErr == nil {
					firstErr = err
				}
				return
			}
			p.workers = append(p.workers, w)
		}()
	}
	wg.Wait()
	if firstErr != nil {
		p.stop()
		return nil, firstErr
	}
	return p, nil
}

func (p *Pool) stop() {
	for _, w := range p.workers {
		w.stop()
	}
}

type Sample struct {
	Harness string            `json:"harness"`
	Status  string            `json:"status"`
	Inputs  map[string]string `json:"inputs,omitempty"`
	Observe []string          `json:"observe,omitempty"`
	Decisions int             `json:"decisions"`
}

type Trace struct {
	Harness string         `json:"harness"`
	Params  map[string]int `json:"params,omitempty"`
	Model   interp.Model   `json:"model"`
	Status  string         `json:"status"`
	Label   string         `json:"label,omitempty"`
	Observe []string       `json:"observe"`
	Inputs  map[string]string `json:"inputs,omitempty"`
}

type Summary struct {
	Harness     string
	Params      map[string]int
	Paths       int
	Dead        int
	Budget      int
	EngineErrs  int
	EngineMsgs  []string
	Decisions   int64
	Viol        []interp.Violation
	ViolCount   map[string]int
	Reach       map[string]int
	Samples     []Sample
	Traces      []Trace
	GlobalWrites map[string]int
	Wall        time.Duration
	MaxDepth    int
	PathLimitHit bool
	StatusCount map[string]int
	MoreViol    []string
	BudgetCases []Trace
}

type ExploreOpts struct {
	MaxPaths   int
	TraceEvery int // keep every k-th completed path for native validation (0 = none)
	Known      []interp.KnownPred
	MaxSteps   int64
	Verbose    bool
	Seed       int64
	Deadline   time.Time
}

func (p *Pool) explore(harness string, params map[string]int, opt ExploreOpts) *Summary {
	sum := &Summary{Harness: harness, Params: params, ViolCount: map[string]int{}, Reach: map[string]int{}, GlobalWrites: map[string]int{}, StatusCount: map[string]int{}}
	t0 := time.Now()
	var mu sync.Mutex
	cond := sync.NewCond(&mu)
	stack := []interp.WorkItem{{}}
	busy := 0
	done := false
	violSeen := map[string]bool{}
	forkSites := map[string]int{}
	defer func() {
		if len(forkSites) == 0 {
			return
		}
		type kv struct {
			k string
			v int
		}
		var l []kv
		for k, v := range forkSites {
			l = append(l, kv{k, v})
		}
		sort.Slice(l, func(i, j int) bool { return l[i].v > l[j].v })
		for i, e := range l {
			if i >= 25 {
				break
			}
			fmt.Fprintf(os.Stderr, "forksite %8d %s\n", e.v, e.k)
		}
	}()
	var wg sync.WaitGroup
	for _, w := range p.workers {
		wg.Add(1)
		go func(w *Worker) {
			defer wg.Done()
			for {
				mu.Lock()
				for len(stack) == 0 && busy > 0 && !done {
					cond.Wait()
				}
				if done || (len(stack) == 0 && busy == 0) {
					done = true
					cond.Broadcast()
					mu.Unlock()
					return
				}
				item := stack[len(stack)-1]
				stack = stack[:len(stack)-1]
				busy++
				mu.Unlock()
				resp, err := w.call(Request{Cmd: "run", Harness: harness, Item: item, Params: params, Known: opt.Known, MaxSteps: opt.MaxSteps})
				mu.Lock()
				busy--
				if err != nil || resp.Err != "" || resp.Res == nil {
					sum.EngineErrs++
					msg := resp.Err
					if err != nil {
						msg = "worker i/o: " + err.Error()
					}
					if len(sum.EngineMsgs) < 5 {
						sum.EngineMsgs = append(sum.EngineMsgs, msg)
					}
					if err != nil {
						done = true
					}
					cond.Broadcast()
					mu.Unlock()
					if err != nil {
						return
					}
					continue
				}
				r := resp.Res
				stack = append(stack, r.NewItems...)
				for k, v := range r.ForkSites {
					forkSites[k] += v
				}
				sum.Decisions += int64(len(r.Trail))
				sum.StatusCount[r.Status]++
				switch r.Status {
				case "ok", "panic", "assert":
					sum.Paths++
					if r.MaxDepth > sum.MaxDepth {
						sum.MaxDepth = r.MaxDepth
					}
					for _, l := range r.Reach {
						sum.Reach[l]++
					}
					if len(sum.Samples) < 6 || (sum.Paths%997 == 0 && len(sum.Samples) < 24) {
						sum.Samples = append(sum.Samples, Sample{harness, r.Status, r.Inputs, trunc(r.Observe, 12), len(r.Trail)})
					}
					if opt.TraceEvery > 0 && (sum.Paths+int(opt.Seed))%opt.TraceEvery == 0 && r.Status != "assert" {
						lbl := ""
						if r.Status == "panic" {
							lbl = r.Msg
						}
						sum.Traces = append(sum.Traces, Trace{harness, params, r.Model, r.Status, lbl, r.Observe, r.Inputs})
					}
				case "dead":
					sum.Dead++
				case "budget":
					sum.Budget++
					if len(sum.BudgetCases) < 2 {
						sum.BudgetCases = append(sum.BudgetCases, Trace{harness, params, r.Model, "budget", r.Msg + " at " + r.Where, nil, r.Inputs})
					}
					if len(sum.EngineMsgs) < 5 {
						sum.EngineMsgs = append(sum.EngineMsgs, fmt.Sprintf("budget(%s) at %s inputs=%v", r.Msg, r.Where, r.Inputs))
					}
				case "engine-error":
					sum.EngineErrs++
					if len(sum.EngineMsgs) < 5 {
						sum.EngineMsgs = append(sum.EngineMsgs, r.Msg+" at "+r.Where+fmt.Sprintf(" inputs=%v", r.Inputs))
					}
				}
				for _, gw := range r.GlobalWrites {
					sum.GlobalWrites[gw]++
				}
				for _, v := range r.Viol {
					key := v.Kind + "|" + v.Label + "|" + v.Known
					sum.ViolCount[key]++
					if !violSeen[key] {
						violSeen[key] = true
						sum.Viol = append(sum.Viol, v)
					} else if sum.ViolCount[key] <= 40 {
						sum.MoreViol = append(sum.MoreViol, fmt.Sprintf("%s %q inputs=%v", v.Kind, v.Label, v.Inputs))
					}
				}
				if opt.MaxPaths > 0 && sum.Paths+sum.Dead >= opt.MaxPaths && len(stack) > 0 {
					sum.PathLimitHit = true
					done = true
				}
				if !opt.Deadline.IsZero() && time.Now().After(opt.Deadline) && len(stack) > 0 {
					sum.PathLimitHit = true
					done = true
				}
				cond.Broadcast()
				mu.Unlock()
			}
		}(w)
	}
	wg.Wait()
	sum.Wall = time.Since(t0)
	return sum
}

func trunc(s []string, n int) []string {
	if len(s) > n {
		return append(append([]string{}, s[:n]...), fmt.Sprintf("… (%d more)", len(s)-n))
	}
	return s
}

type PoolStats struct {
	St      interp.Stats
	Funcs   []string
	SolverS float64
}

func (p *Pool) stats() PoolStats {
	var ps PoolStats
	fs := map[string]bool{}
	for _, w := range p.workers {
		resp, err := w.call(Request{Cmd: "stats"})
		if err != nil || resp.Stats == nil {
			continue
		}
		s := resp.Stats
		ps.St.Queries += s.Queries
		ps.St.QueryNs += s.QueryNs
		ps.St.Fallbacks += s.Fallbacks
		ps.St.Unknowns += s.Unknowns
		ps.St.Decisions += s.Decisions
		ps.St.ModelHits += s.ModelHits
		ps.St.Steps += s.Steps
		ps.St.AssertsChk += s.AssertsChk
		ps.St.AssertsInh += s.AssertsInh
		ps.St.CapHits += s.CapHits
		ps.St.Regions += s.Regions
		ps.St.Merges += s.Merges
		ps.St.FastImplied += s.FastImplied
		ps.St.FastForks += s.FastForks
		ps.St.Kills += s.Kills
		ps.SolverS += resp.SolverS
		for _, f := range resp.Funcs {
			fs[f] = true
		}
	}
	for f := range fs {
		ps.Funcs = append(ps.Funcs, f)
	}
	sort.Strings(ps.Funcs)
	return ps
}

func (s *Summary) String() string {
	var sb strings.Builder
	fmt.Fprintf(&sb, "%s %v: paths=%d dead=%d budget=%d engine-errors=%d decisions=%d maxdepth=%d wall=%v status=%v", s.Harness, s.Params, s.Paths, s.Dead, s.Budget, s.EngineErrs, s.Decisions, s.MaxDepth, s.Wall.Round(time.Millisecond), s.StatusCount)
	if s.PathLimitHit {
		sb.WriteString(" PATH-LIMIT")
	}
	keys := make([]string, 0, len(s.Reach))
	for k := range s.Reach {
		keys = append(keys, k)
	}
	sort.Strings(keys)
	for _, k := range keys {
		fmt.Fprintf(&sb, "\n   reach %-30s %d", k, s.Reach[k])
	}
	for _, v := range s.Viol {
		fmt.Fprintf(&sb, "\n   VIOL %s %q known=%q x%d inputs=%v msg=%s where=%s", v.Kind, v.Label, v.Known, s.ViolCount[v.Kind+"|"+v.Label+"|"+v.Known], v.Inputs, v.Msg, v.Where)
	}
	for _, m := range s.MoreViol {
		fmt.Fprintf(&sb, "\n      also: %s", m)
	}
	for gw, n := range s.GlobalWrites {
		fmt.Fprintf(&sb, "\n   GLOBAL-WRITE %s x%d", gw, n)
	}
	for _, m := range s.EngineMsgs {
		fmt.Fprintf(&sb, "\n   ENGINE: %s", m)
	}
	return sb.String()
}
