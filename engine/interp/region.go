package interp

// If-conversion of pure condition regions: go/ssa lowers `a || b || c` and
// `a && b` into DAGs of tiny blocks (a few pure instructions and an If each).
// Forking at every disjunct multiplies paths that differ in nothing, so at a
// symbolic If the engine evaluates the maximal DAG of pure condition blocks
// symbolically and takes a single k-way decision among the region's exits.

import (
	"go/token"
	"go/types"

	"golang.org/x/tools/go/ssa"
)

var UseRegions = true

type regionInfo struct {
	ok    bool
	order []*ssa.BasicBlock // topological order
	in    map[*ssa.BasicBlock]bool
}

var regionCache = map[*ssa.If]*regionInfo{}

func numericType(t types.Type) bool {
	b, ok := t.Underlying().(*types.Basic)
	return ok && b.Info()&(types.IsInteger|types.IsBoolean) != 0
}

func pureInstr(in ssa.Instruction) bool {
	switch in := in.(type) {
	case *ssa.DebugRef:
		return true
	case *ssa.BinOp:
		if in.Op == token.QUO || in.Op == token.REM {
			return false
		}
		return numericType(in.X.Type()) && numericType(in.Y.Type())
	case *ssa.UnOp:
		return (in.Op == token.SUB || in.Op == token.XOR || in.Op == token.NOT) && numericType(in.X.Type())
	case *ssa.Convert:
		return numericType(in.Type()) && numericType(in.X.Type())
	case *ssa.ChangeType:
		return numericType(in.Type())
	case *ssa.Call:
		if b, ok := in.Call.Value.(*ssa.Builtin); ok && (b.Name() == "len" || b.Name() == "cap") {
			return true
		}
	}
	return false
}

func pureCondBlock(b *ssa.BasicBlock) bool {
	n := len(b.Instrs)
	if n == 0 {
		return false
	}
	switch b.Instrs[n-1].(type) {
	case *ssa.If, *ssa.Jump:
	default:
		return false
	}
	for _, in := range b.Instrs[:n-1] {
		if _, isPhi := in.(*ssa.Phi); isPhi {
			return false
		}
		if !pureInstr(in) {
			return false
		}
	}
	return true
}

func regionOf(ifi *ssa.If) *regionInfo {
	if r, ok := regionCache[ifi]; ok {
		return r
	}
	r := &regionInfo{in: map[*ssa.BasicBlock]bool{}}
	regionCache[ifi] = r
	root := ifi.Block()
	// collect candidate blocks
	var collect func(b *ssa.BasicBlock)
	collect = func(b *ssa.BasicBlock) {
		if b == root || r.in[b] || !pureCondBlock(b) {
			return
		}
		r.in[b] = true
		for _, s := range b.Succs {
			collect(s)
		}
	}
	for _, s := range root.Succs {
		collect(s)
	}
	if len(r.in) == 0 {
		return r
	}
	// topological order; reject cycles (also through root)
	state := map[*ssa.BasicBlock]int{}
	cyc := false
	var post []*ssa.BasicBlock
	var dfs func(b *ssa.BasicBlock)
	dfs = func(b *ssa.BasicBlock) {
		state[b] = 1
		for _, s := range b.Succs {
			if s == root && r.in[b] {
				// edge back to the root block is an exit like any other
				continue
			}
			if !r.in[s] {
				continue
			}
			switch state[s] {
			case 0:
				dfs(s)
			case 1:
				cyc = true
			}
		}
		state[b] = 2
		post = append(post, b)
	}
	for _, s := range root.Succs {
		if r.in[s] && state[s] == 0 {
			dfs(s)
		}
	}
	if cyc {
		r.in = map[*ssa.BasicBlock]bool{}
		return r
	}
	for i := len(post) - 1; i >= 0; i-- {
		r.order = append(r.order, post[i])
	}
	r.ok = true
	return r
}

type regionExit struct {
	target *ssa.BasicBlock
	pred   *ssa.BasicBlock
	cond   *Term
	preds  []*ssa.BasicBlock // merged predecessors (phi merge)
	conds  []*Term
}

func blockHasPhi(b *ssa.BasicBlock) bool {
	if len(b.Instrs) == 0 {
		return false
	}
	_, ok := b.Instrs[0].(*ssa.Phi)
	return ok
}

// evalRegion returns (next block, prev block, handled).
func evalRegion(fr *frame, ifi *ssa.If, cond *Term) (*ssa.BasicBlock, *ssa.BasicBlock, bool) {
	if !UseRegions {
		return nil, nil, false
	}
	r := regionOf(ifi)
	if !r.ok {
		return nil, nil, false
	}
	root := ifi.Block()
	reach := map[*ssa.BasicBlock]*Term{}
	var exits []*regionExit
	addEdge := func(from, to *ssa.BasicBlock, c *Term) {
		if isFalse(c) {
			return
		}
		if r.in[to] {
			if old, ok := reach[to]; ok {
				reach[to] = BOr(old, c)
			} else {
				reach[to] = c
			}
			return
		}
		for _, e := range exits {
			if e.target == to && (e.pred == from || !blockHasPhi(to)) {
				e.cond = BOr(e.cond, c)
				return
			}
		}
		exits = append(exits, &regionExit{target: to, pred: from, cond: c})
	}
	addEdge(root, root.Succs[0], cond)
	addEdge(root, root.Succs[1], BNot(cond))
	saved := curInstr
	for _, b := range r.order {
		rc, ok := reach[b]
		if !ok {
			continue
		}
		n := len(b.Instrs)
		for _, in := range b.Instrs[:n-1] {
			curInstr = in
			visitInstr(fr, in)
		}
		if _, isJump := b.Instrs[n-1].(*ssa.Jump); isJump {
			addEdge(b, b.Succs[0], rc)
			continue
		}
		cv := fr.get(b.Instrs[n-1].(*ssa.If).Cond)
		var ct *Term
		switch cv := cv.(type) {
		case bool:
			ct = BoolT(cv)
		case sym:
			ct = cv.t
		default:
			curInstr = saved
			return nil, nil, false
		}
		addEdge(b, b.Succs[0], BAnd(rc, ct))
		addEdge(b, b.Succs[1], BAnd(rc, BNot(ct)))
	}
	curInstr = saved
	if len(exits) == 0 {
		return nil, nil, false
	}
	// merge exits into the same phi target when all phi inputs are scalars
	exits = mergePhiExits(fr, exits)
	X.St.Regions++
	conds := make([]*Term, len(exits))
	for i, e := range exits {
		conds[i] = e.cond
	}
	ch := X.KWay(conds, curSite())
	e := exits[ch]
	if len(e.preds) > 1 {
		fr.phiOverride = phiMergeValues(fr, e)
	}
	return e.target, e.pred, true
}

func mergePhiExits(fr *frame, exits []*regionExit) []*regionExit {
	byTarget := map[*ssa.BasicBlock][]*regionExit{}
	var order []*ssa.BasicBlock
	for _, e := range exits {
		if _, ok := byTarget[e.target]; !ok {
			order = append(order, e.target)
		}
		byTarget[e.target] = append(byTarget[e.target], e)
	}
	var out []*regionExit
	for _, t := range order {
		es := byTarget[t]
		if len(es) == 1 || !phisScalar(fr, t, es) {
			out = append(out, es...)
			continue
		}
		m := &regionExit{target: t, pred: es[0].pred, cond: BoolT(false)}
		for _, e := range es {
			m.preds = append(m.preds, e.pred)
			m.conds = append(m.conds, e.cond)
			m.cond = BOr(m.cond, e.cond)
		}
		X.St.Merges++
		out = append(out, m)
	}
	return out
}

func phisScalar(fr *frame, t *ssa.BasicBlock, es []*regionExit) bool {
	for _, in := range t.Instrs {
		phi, ok := in.(*ssa.Phi)
		if !ok {
			break
		}
		if !numericType(phi.Type()) {
			return false
		}
		for _, e := range es {
			idx := predIndex(t, e.pred)
			if idx < 0 {
				return false
			}
			v, ok := tryGet(fr, phi.Edges[idx])
			if !ok || !isScalar(v) {
				return false
			}
		}
	}
	return true
}

func predIndex(b, pred *ssa.BasicBlock) int {
	for i, p := range b.Preds {
		if p == pred {
			return i
		}
	}
	return -1
}

func tryGet(fr *frame, key ssa.Value) (v value, ok bool) {
	defer func() {
		if recover() != nil {
			ok = false
		}
	}()
	return fr.get(key), true
}

// phiMergeValues computes, for each phi of the merged exit's target, the
// ite over the merged predecessors.
func phiMergeValues(fr *frame, e *regionExit) []value {
	var vals []value
	for _, in := range e.target.Instrs {
		phi, ok := in.(*ssa.Phi)
		if !ok {
			break
		}
		k := kindOf(phi.Type())
		w, _, _ := kindInfo(k)
		n := len(e.preds)
		res := toTerm(fr.get(phi.Edges[predIndex(e.target, e.preds[n-1])]), w)
		for j := n - 2; j >= 0; j-- {
			v := toTerm(fr.get(phi.Edges[predIndex(e.target, e.preds[j])]), w)
			res = Ite(e.conds[j], v, res)
		}
		vals = append(vals, mkval(res, k))
	}
	return vals
}
