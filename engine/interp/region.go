package interp

import "golang.org/x/tools/go/ssa"

var UseRegions = true

func evalRegion(fr *frame, ifi *ssa.If, cond *Term) (*ssa.BasicBlock, *ssa.BasicBlock, bool) {
	return nil, nil, false
}
