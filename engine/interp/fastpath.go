package interp

// Unary-domain fast path. For every 8-bit symbolic variable the explorer keeps
// the exact set of values allowed by the single-variable constraints asserted so
// far. A branch condition that mentions exactly one such variable is decided by
// evaluating it on the (at most 256) remaining values: this is an exact decision
// procedure for unary byte predicates (the solver's own propagation done
// in-process). If the variable also occurs in a multi-variable constraint, only
// the "implied" verdicts (condition constant on the whole domain) are used and
// everything else goes to the SMT solver. Assertions (vAssert), assumption
// feasibility and known-finding exclusions always go to the solver.

type bitset256 [4]uint64

func (b *bitset256) has(v int) bool { return b[v>>6]&(1<<(uint(v)&63)) != 0 }
func (b *bitset256) set(v int)      { b[v>>6] |= 1 << (uint(v) & 63) }
func (b bitset256) empty() bool     { return b[0]|b[1]|b[2]|b[3] == 0 }
func (b bitset256) and(o bitset256) bitset256 {
	return bitset256{b[0] & o[0], b[1] & o[1], b[2] & o[2], b[3] & o[3]}
}
func (b bitset256) andNot(o bitset256) bitset256 {
	return bitset256{b[0] &^ o[0], b[1] &^ o[1], b[2] &^ o[2], b[3] &^ o[3]}
}
func (b bitset256) first() int {
	for v := 0; v < 256; v++ {
		if b.has(v) {
			return v
		}
	}
	return -1
}

var fullSet = bitset256{^uint64(0), ^uint64(0), ^uint64(0), ^uint64(0)}

type varInfo struct {
	dom   bitset256
	mixed bool
}

type supp struct {
	n    int // 0 none, 1 single 8-bit var, 2 anything else
	name string
}

type fastState struct {
	vars   map[string]*varInfo
	supp   map[*Term]supp
	truth  map[*Term]bitset256
	vecs   map[*Term]*lanes
	On     bool
	Audit  bool
}

func newFastState() *fastState {
	return &fastState{vars: map[string]*varInfo{}, supp: map[*Term]supp{}, truth: map[*Term]bitset256{}, vecs: map[*Term]*lanes{}, On: true}
}

func (f *fastState) support(t *Term) supp {
	if t == nil {
		return supp{}
	}
	switch t.Op {
	case OpConst:
		return supp{}
	case OpVar:
		if t.W == 8 && !t.F {
			return supp{1, t.Name}
		}
		return supp{2, ""}
	case OpUF:
		return supp{2, ""}
	}
	if s, ok := f.supp[t]; ok {
		return s
	}
	s := f.support(t.A)
	for _, c := range []*Term{t.B, t.C} {
		if c == nil || s.n == 2 {
			continue
		}
		s2 := f.support(c)
		switch {
		case s2.n == 0:
		case s2.n == 2:
			s = s2
		case s.n == 0:
			s = s2
		case s.name != s2.name:
			s = supp{2, ""}
		}
	}
	f.supp[t] = s
	return s
}

// vars lists all variable names of a term (for the mixed flag).
func collectVars(t *Term, seen map[*Term]bool, out map[string]bool) {
	if t == nil || seen[t] {
		return
	}
	seen[t] = true
	if t.Op == OpVar {
		out[t.Name] = true
		return
	}
	collectVars(t.A, seen, out)
	collectVars(t.B, seen, out)
	collectVars(t.C, seen, out)
}

func (f *fastState) info(name string) *varInfo {
	vi := f.vars[name]
	if vi == nil {
		vi = &varInfo{dom: fullSet}
		f.vars[name] = vi
	}
	return vi
}

type lanes [256]uint64

// vec evaluates a single-variable term on all 256 values of that variable at once.
func (f *fastState) vec(t *Term) *lanes {
	if v, ok := f.vecs[t]; ok {
		return v
	}
	out := new(lanes)
	switch t.Op {
	case OpConst:
		for i := range out {
			out[i] = t.K
		}
	case OpVar:
		for i := range out {
			out[i] = uint64(i)
		}
	case OpAdd, OpSub, OpMul, OpUDiv, OpSDiv, OpURem, OpSRem, OpAnd, OpOr, OpXor, OpShl, OpLShr, OpAShr:
		a, b := f.vec(t.A), f.vec(t.B)
		for i := range out {
			out[i] = evalBin(t.Op, t.W, a[i], b[i])
		}
	case OpNot:
		a := f.vec(t.A)
		m := mask(t.W)
		for i := range out {
			out[i] = ^a[i] & m
		}
	case OpNeg:
		a := f.vec(t.A)
		m := mask(t.W)
		for i := range out {
			out[i] = -a[i] & m
		}
	case OpExtract:
		a := f.vec(t.A)
		m := mask(t.W)
		for i := range out {
			out[i] = (a[i] >> t.K) & m
		}
	case OpZext:
		return f.vec(t.A)
	case OpSext:
		a := f.vec(t.A)
		m := mask(t.W)
		for i := range out {
			out[i] = uint64(sext64(a[i], t.A.W)) & m
		}
	case OpIte:
		c, a, b := f.vec(t.A), f.vec(t.B), f.vec(t.C)
		for i := range out {
			if c[i] != 0 {
				out[i] = a[i]
			} else {
				out[i] = b[i]
			}
		}
	case OpEq:
		a, b := f.vec(t.A), f.vec(t.B)
		for i := range out {
			out[i] = b2u(a[i] == b[i])
		}
	case OpUlt, OpUle, OpSlt, OpSle:
		a, b := f.vec(t.A), f.vec(t.B)
		for i := range out {
			out[i] = b2u(evalCmp(t.Op, t.A.W, a[i], b[i]))
		}
	case OpBAnd:
		a, b := f.vec(t.A), f.vec(t.B)
		for i := range out {
			out[i] = b2u(a[i] != 0 && b[i] != 0)
		}
	case OpBOr:
		a, b := f.vec(t.A), f.vec(t.B)
		for i := range out {
			out[i] = b2u(a[i] != 0 || b[i] != 0)
		}
	case OpBNot:
		a := f.vec(t.A)
		for i := range out {
			out[i] = b2u(a[i] == 0)
		}
	case OpTable:
		a := f.vec(t.A)
		for i := range out {
			if a[i] < uint64(len(t.Tab.Vals)) {
				out[i] = t.Tab.Vals[a[i]]
			}
		}
	default:
		// generic fallback through the scalar evaluator
		name := f.support(t).name
		m := Model{}
		for i := range out {
			m[name] = uint64(i)
			ev := Evaluator{M: m, cache: map[*Term]uint64{}, UFs: map[string]map[uint64]uint64{}}
			out[i] = ev.Eval(t)
		}
	}
	f.vecs[t] = out
	return out
}

// truthSet evaluates a single-variable boolean term on all 256 values.
func (f *fastState) truthSet(t *Term, name string) bitset256 {
	if ts, ok := f.truth[t]; ok {
		return ts
	}
	var ts bitset256
	v := f.vec(t)
	for i := 0; i < 256; i++ {
		if v[i] != 0 {
			ts.set(i)
		}
	}
	f.truth[t] = ts
	return ts
}

// valueSets groups the domain by the value of a single-variable term.
func (f *fastState) valueSets(t *Term, name string, dom bitset256) (vals []uint64, sets []bitset256) {
	idx := map[uint64]int{}
	vv := f.vec(t)
	for v := 0; v < 256; v++ {
		if !dom.has(v) {
			continue
		}
		x := vv[v]
		i, ok := idx[x]
		if !ok {
			i = len(vals)
			idx[x] = i
			vals = append(vals, x)
			sets = append(sets, bitset256{})
		}
		sets[i].set(v)
	}
	return
}

func (f *fastState) onAssert(t *Term) {
	s := f.support(t)
	switch s.n {
	case 1:
		vi := f.info(s.name)
		vi.dom = vi.dom.and(f.truthSet(t, s.name))
	case 2:
		out := map[string]bool{}
		collectVars(t, map[*Term]bool{}, out)
		for n := range out {
			f.info(n).mixed = true
		}
	}
}

// decide returns (verdict, kind): kind 0 = not applicable, 1 = implied (verdict is
// the constant truth value), 2 = both sides feasible and the variable is
// independent (name/sets returned via the other results).
func (f *fastState) decide(c *Term) (kind int, verdict bool, name string, tset, fset bitset256) {
	if !f.On {
		return 0, false, "", bitset256{}, bitset256{}
	}
	s := f.support(c)
	if s.n != 1 {
		return 0, false, "", bitset256{}, bitset256{}
	}
	vi := f.info(s.name)
	ts := f.truthSet(c, s.name)
	T := vi.dom.and(ts)
	F := vi.dom.andNot(ts)
	if F.empty() && !T.empty() {
		return 1, true, s.name, T, F
	}
	if T.empty() && !F.empty() {
		return 1, false, s.name, T, F
	}
	if T.empty() && F.empty() {
		return 0, false, "", T, F
	}
	if !vi.mixed {
		return 2, false, s.name, T, F
	}
	return 0, false, "", T, F
}
