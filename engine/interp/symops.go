package interp

// Symbolic scalars inside the interpreter: construction of SMT terms for
// BinOp / UnOp / Convert, symbolic addresses (array cells selected by a
// symbolic index) and symbolic-content strings.

import (
	"os"
	"fmt"
	"go/token"
	"go/types"
	"math"
	"runtime"
	"sort"
	"strings"

	"golang.org/x/tools/go/ssa"
)

// sym is a symbolic scalar of Go basic kind k.
type sym struct {
	t *Term
	k types.BasicKind
}

// symaddr is the address of cells[idx] for a symbolic, in-range idx (64-bit term).
type symaddr struct {
	cells []value
	idx   *Term
}

// symstr is a string whose bytes may be symbolic (elements: uint8 or sym).
type symstr []value

func isSym(v value) bool    { _, ok := v.(sym); return ok }
func isSymStr(v value) bool { _, ok := v.(symstr); return ok }

type rtErr struct{ msg string }

func (e rtErr) Error() string { return "runtime error: " + e.msg }
func (rtErr) RuntimeError()   {}

var _ runtime.Error = rtErr{}

func kindOf(t types.Type) types.BasicKind {
	b, ok := t.Underlying().(*types.Basic)
	if !ok {
		return types.Invalid
	}
	switch b.Kind() {
	case types.UntypedBool:
		return types.Bool
	case types.UntypedInt:
		return types.Int
	case types.UntypedRune:
		return types.Int32
	case types.UntypedFloat:
		return types.Float64
	case types.UntypedString:
		return types.String
	}
	return b.Kind()
}

// kindInfo returns bit width (0 for bool), signedness and floatness.
func kindInfo(k types.BasicKind) (w uint8, signed bool, float bool) {
	switch k {
	case types.Bool:
		return 0, false, false
	case types.Int8:
		return 8, true, false
	case types.Int16:
		return 16, true, false
	case types.Int32:
		return 32, true, false
	case types.Int64, types.Int:
		return 64, true, false
	case types.Uint8:
		return 8, false, false
	case types.Uint16:
		return 16, false, false
	case types.Uint32:
		return 32, false, false
	case types.Uint64, types.Uint, types.Uintptr:
		return 64, false, false
	case types.Float64:
		return 64, false, true
	}
	panic(engineError{fmt.Sprintf("kindInfo: unsupported kind %v", k)})
}

func dynKind(v value) types.BasicKind {
	switch v := v.(type) {
	case sym:
		return v.k
	case bool:
		return types.Bool
	case int:
		return types.Int
	case int8:
		return types.Int8
	case int16:
		return types.Int16
	case int32:
		return types.Int32
	case int64:
		return types.Int64
	case uint:
		return types.Uint
	case uint8:
		return types.Uint8
	case uint16:
		return types.Uint16
	case uint32:
		return types.Uint32
	case uint64:
		return types.Uint64
	case uintptr:
		return types.Uintptr
	case float64:
		return types.Float64
	}
	panic(engineError{fmt.Sprintf("dynKind: %T", v)})
}

// toTerm lifts a concrete or symbolic scalar to a term (w only used for sanity).
func toTerm(v value, w uint8) *Term {
	switch v := v.(type) {
	case sym:
		return v.t
	case bool:
		return BoolT(v)
	case float64:
		return F64(v)
	case float32:
		panic(engineError{"float32 not supported symbolically"})
	}
	k := dynKind(v)
	ww, _, _ := kindInfo(k)
	return BV(asUint64Bits(v), ww)
}

func asUint64Bits(v value) uint64 {
	switch v := v.(type) {
	case int:
		return uint64(v)
	case int8:
		return uint64(v)
	case int16:
		return uint64(v)
	case int32:
		return uint64(v)
	case int64:
		return uint64(v)
	case uint:
		return uint64(v)
	case uint8:
		return uint64(v)
	case uint16:
		return uint64(v)
	case uint32:
		return uint64(v)
	case uint64:
		return v
	case uintptr:
		return uint64(v)
	case bool:
		return b2u(v)
	}
	panic(engineError{fmt.Sprintf("asUint64Bits: %T", v)})
}

// concOf turns raw bits into the concrete Go value of kind k.
func concOf(k types.BasicKind, bits uint64) value {
	switch k {
	case types.Bool:
		return bits != 0
	case types.Int:
		return int(bits)
	case types.Int8:
		return int8(bits)
	case types.Int16:
		return int16(bits)
	case types.Int32:
		return int32(bits)
	case types.Int64:
		return int64(bits)
	case types.Uint:
		return uint(bits)
	case types.Uint8:
		return uint8(bits)
	case types.Uint16:
		return uint16(bits)
	case types.Uint32:
		return uint32(bits)
	case types.Uint64:
		return bits
	case types.Uintptr:
		return uintptr(bits)
	case types.Float64:
		return math.Float64frombits(bits)
	}
	panic(engineError{fmt.Sprintf("concOf: kind %v", k)})
}

// mkval wraps a term as an interpreter value (concrete if constant).
func mkval(t *Term, k types.BasicKind) value {
	if t.IsConst() {
		return concOf(k, t.K)
	}
	return sym{t, k}
}

var siteIDs = map[ssa.Instruction]uint32{}
var curInstr ssa.Instruction

func curSite() uint32 {
	if curInstr == nil {
		return 0
	}
	if id, ok := siteIDs[curInstr]; ok {
		return id
	}
	// stable across processes: hash of function name + block + index
	h := uint32(2166136261)
	mix := func(s string) {
		for i := 0; i < len(s); i++ {
			h ^= uint32(s[i])
			h *= 16777619
		}
	}
	if b := curInstr.Block(); b != nil {
		mix(curInstr.Parent().String())
		mix(fmt.Sprintf("#%d", b.Index))
		for i, in := range b.Instrs {
			if in == curInstr {
				mix(fmt.Sprintf(".%d", i))
				break
			}
		}
	}
	siteIDs[curInstr] = h
	if SiteDebug {
		name := ""
		if b := curInstr.Block(); b != nil {
			name = fmt.Sprintf("%s#%d", curInstr.Parent().String(), b.Index)
			for _, in := range b.Instrs {
				if in.Pos().IsValid() {
					pos := curInstr.Parent().Prog.Fset.Position(in.Pos())
					name += fmt.Sprintf(" @%s:%d", pos.Filename, pos.Line)
					break
				}
			}
		}
		SiteNames[h] = name
	}
	return h
}

// SiteDebug makes curSite record a readable name per decision site (development aid).
var SiteDebug = os.Getenv("VERIF_SITES") != ""
var SiteNames = map[uint32]string{}

func siteSalt(n uint32) uint32 { return curSite()*31 + n }

func symBinop(op token.Token, t types.Type, x, y value) value {
	k := kindOf(t)
	if k == types.Invalid {
		panic(engineError{fmt.Sprintf("symBinop on non-basic type %s", t)})
	}
	w, signed, float := kindInfo(k)
	tx := toTerm(x, w)
	if op == token.SHL || op == token.SHR {
		ky := dynKind(y)
		wy, _, _ := kindInfo(ky)
		ty := toTerm(y, wy)
		// bring the count to width w, saturating
		var cnt *Term
		if wy > w {
			cnt = Ite(Cmp(OpUlt, ty, BV(uint64(w), wy)), Extract(ty, 0, w), BV(uint64(w), w))
		} else {
			cnt = Zext(ty, w)
		}
		switch {
		case op == token.SHL:
			return mkval(Bin(OpShl, tx, cnt), k)
		case signed:
			return mkval(Bin(OpAShr, tx, cnt), k)
		default:
			return mkval(Bin(OpLShr, tx, cnt), k)
		}
	}
	ty := toTerm(y, w)
	if float {
		switch op {
		case token.ADD:
			return mkval(FBin(OpFAdd, tx, ty), k)
		case token.SUB:
			return mkval(FBin(OpFSub, tx, ty), k)
		case token.MUL:
			return mkval(FBin(OpFMul, tx, ty), k)
		case token.QUO:
			return mkval(FBin(OpFDiv, tx, ty), k)
		case token.EQL:
			return mkval(FCmp(OpFEq, tx, ty), types.Bool)
		case token.NEQ:
			return mkval(BNot(FCmp(OpFEq, tx, ty)), types.Bool)
		case token.LSS:
			return mkval(FCmp(OpFLt, tx, ty), types.Bool)
		case token.LEQ:
			return mkval(FCmp(OpFLe, tx, ty), types.Bool)
		case token.GTR:
			return mkval(FCmp(OpFLt, ty, tx), types.Bool)
		case token.GEQ:
			return mkval(FCmp(OpFLe, ty, tx), types.Bool)
		}
		panic(engineError{"float binop " + op.String()})
	}
	if k == types.Bool {
		switch op {
		case token.EQL:
			return mkval(Cmp(OpEq, tx, ty), types.Bool)
		case token.NEQ:
			return mkval(BNot(Cmp(OpEq, tx, ty)), types.Bool)
		case token.AND, token.LAND:
			return mkval(BAnd(tx, ty), types.Bool)
		case token.OR, token.LOR:
			return mkval(BOr(tx, ty), types.Bool)
		}
		panic(engineError{"bool binop " + op.String()})
	}
	lt, le := OpUlt, OpUle
	if signed {
		lt, le = OpSlt, OpSle
	}
	switch op {
	case token.ADD:
		return mkval(Bin(OpAdd, tx, ty), k)
	case token.SUB:
		return mkval(Bin(OpSub, tx, ty), k)
	case token.MUL:
		if Params["absmul"] != 0 && ty.IsConst() && ty.K == 16777619 && !tx.IsConst() {
			// sound over-approximation: the FNV multiply is an uninterpreted function
			if Params["absmul"] == 2 {
				return mkval(UF("fnvmul", tx, w), k)
			}
			return mkval(X.freshVar("fnvmul", w, false), k)
		}
		return mkval(Bin(OpMul, tx, ty), k)
	case token.QUO, token.REM:
		if !ty.IsConst() {
			if X.Branch(Cmp(OpEq, ty, BV(0, w)), siteSalt(7)) {
				panic(rtErr{"integer divide by zero"})
			}
		} else if ty.K == 0 {
			panic(rtErr{"integer divide by zero"})
		}
		var o Op
		switch {
		case op == token.QUO && signed:
			o = OpSDiv
		case op == token.QUO:
			o = OpUDiv
		case signed:
			o = OpSRem
		default:
			o = OpURem
		}
		return mkval(Bin(o, tx, ty), k)
	case token.AND:
		return mkval(Bin(OpAnd, tx, ty), k)
	case token.OR:
		return mkval(Bin(OpOr, tx, ty), k)
	case token.XOR:
		return mkval(Bin(OpXor, tx, ty), k)
	case token.AND_NOT:
		return mkval(Bin(OpAnd, tx, Un(OpNot, ty)), k)
	case token.EQL:
		return mkval(Cmp(OpEq, tx, ty), types.Bool)
	case token.NEQ:
		return mkval(BNot(Cmp(OpEq, tx, ty)), types.Bool)
	case token.LSS:
		return mkval(Cmp(lt, tx, ty), types.Bool)
	case token.LEQ:
		return mkval(Cmp(le, tx, ty), types.Bool)
	case token.GTR:
		return mkval(Cmp(lt, ty, tx), types.Bool)
	case token.GEQ:
		return mkval(Cmp(le, ty, tx), types.Bool)
	}
	panic(engineError{"symBinop: op " + op.String()})
}

func symUnop(op token.Token, x sym) value {
	_, _, float := kindInfo(x.k)
	switch op {
	case token.SUB:
		if float {
			return mkval(FUn(OpFNeg, x.t), x.k)
		}
		return mkval(Un(OpNeg, x.t), x.k)
	case token.XOR:
		return mkval(Un(OpNot, x.t), x.k)
	case token.NOT:
		return mkval(BNot(x.t), types.Bool)
	}
	panic(engineError{"symUnop: " + op.String()})
}

// symConv converts symbolic scalar x to the destination basic kind.
func symConv(dst types.BasicKind, x sym) value {
	if dst == types.String {
		// string(rune): UTF-8 encode symbolically (forks on the length class only)
		w, signed, _ := kindInfo(x.k)
		t := x.t
		switch {
		case w < 32 && signed:
			t = Sext(t, 32)
		case w < 32:
			t = Zext(t, 32)
		case w > 32:
			// values outside the 32-bit range are invalid code points
			if X.Branch(Cmp(OpUlt, BV(0x10FFFF, w), t), siteSalt(4)) {
				return "\uFFFD"
			}
			t = Extract(t, 0, 32)
		}
		return normStr(symstr(symRuneEncode(sym{t, types.Int32})))
	}
	if dst == types.UnsafePointer {
		panic(engineError{"symbolic unsafe.Pointer"})
	}
	wd, sd, fd := kindInfo(dst)
	ws, ss, fs := kindInfo(x.k)
	_ = ws
	switch {
	case fs && fd:
		return sym{x.t, dst}
	case fs:
		return mkval(FToInt(x.t, wd, sd), dst)
	case fd:
		return mkval(IntToF(x.t, ss), dst)
	}
	if wd == 0 || ws == 0 {
		if wd == 0 && ws == 0 {
			return x
		}
		panic(engineError{"symConv bool<->int"})
	}
	if ss {
		return mkval(Sext(x.t, wd), dst)
	}
	return mkval(Zext(x.t, wd), dst)
}

// ---- symbolic addresses ----

func isScalar(v value) bool {
	switch v.(type) {
	case sym, bool, int, int8, int16, int32, int64, uint, uint8, uint16, uint32, uint64, uintptr, float64:
		return true
	}
	return false
}

var tableCache = map[string]*Table{}

func tableFor(cells []value, k types.BasicKind) *Table {
	w, _, _ := kindInfo(k)
	vals := make([]uint64, len(cells))
	var sb strings.Builder
	fmt.Fprintf(&sb, "%d:%d:", w, len(cells))
	for i, c := range cells {
		vals[i] = asUint64Bits(c) & maskW0(w)
		fmt.Fprintf(&sb, "%x,", vals[i])
	}
	key := sb.String()
	if t, ok := tableCache[key]; ok {
		return t
	}
	t := &Table{Name: fmt.Sprintf("tbl%d", len(tableCache)), Vals: vals, W: w, IW: 64}
	tableCache[key] = t
	return t
}

func maskW0(w uint8) uint64 {
	if w == 0 {
		return 1
	}
	return mask(w)
}

// symIndex checks bounds of a symbolic index (forking on the out-of-range side)
// and returns the 64-bit index term.
func symIndex(idx sym, n int) *Term {
	w, signed, _ := kindInfo(idx.k)
	var i64 *Term
	if signed {
		i64 = Sext(idx.t, 64)
	} else {
		i64 = Zext(idx.t, 64)
	}
	_ = w
	inb := Cmp(OpUlt, i64, BV(uint64(n), 64))
	if !X.Branch(inb, siteSalt(11)) {
		panic(rtErr{fmt.Sprintf("index out of range [symbolic] with length %d", n)})
	}
	return i64
}

// loadSym reads cells[idx].
func loadSym(sa symaddr) value {
	cells := sa.cells
	allConc, scalar := true, true
	var k types.BasicKind
	for i, c := range cells {
		if !isScalar(c) {
			scalar = false
			break
		}
		if isSym(c) {
			allConc = false
		}
		if i == 0 {
			k = dynKind(c)
		}
	}
	if !scalar || len(cells) == 0 {
		i := X.Concretise(sa.idx, siteSalt(13))
		return cells[i]
	}
	w, _, fl := kindInfo(k)
	if fl {
		i := X.Concretise(sa.idx, siteSalt(13))
		return cells[i]
	}
	if allConc && len(cells) > 4 {
		return mkval(TableLookup(tableFor(cells, k), sa.idx), k)
	}
	// ite chain
	res := toTerm(cells[len(cells)-1], w)
	for j := len(cells) - 2; j >= 0; j-- {
		res = Ite(Cmp(OpEq, sa.idx, BV(uint64(j), 64)), toTerm(cells[j], w), res)
	}
	return mkval(res, k)
}

func storeSym(sa symaddr, v value) {
	cells := sa.cells
	ok := isScalar(v) && len(cells) <= 64
	if ok {
		for _, c := range cells {
			if !isScalar(c) {
				ok = false
				break
			}
		}
	}
	if !ok {
		i := X.Concretise(sa.idx, siteSalt(17))
		cells[i] = v
		return
	}
	k := dynKind(v)
	w, _, fl := kindInfo(k)
	if fl {
		i := X.Concretise(sa.idx, siteSalt(17))
		cells[i] = v
		return
	}
	tv := toTerm(v, w)
	for j := range cells {
		noteWrite(&cells[j])
		cells[j] = mkval(Ite(Cmp(OpEq, sa.idx, BV(uint64(j), 64)), tv, toTerm(cells[j], w)), k)
	}
}

// resolve turns a possibly symbolic address into a concrete cell pointer (forking).
func resolveAddr(v value) *value {
	if sa, ok := v.(symaddr); ok {
		i := X.Concretise(sa.idx, siteSalt(19))
		return &sa.cells[i]
	}
	return v.(*value)
}

// ---- symbolic strings ----

func toSymStr(v value) symstr {
	switch v := v.(type) {
	case symstr:
		return v
	case string:
		out := make(symstr, len(v))
		for i := 0; i < len(v); i++ {
			out[i] = v[i]
		}
		return out
	}
	panic(engineError{fmt.Sprintf("toSymStr: %T", v)})
}

// normStr returns a Go string if all bytes are concrete.
func normStr(s symstr) value {
	for _, c := range s {
		if isSym(c) {
			return s
		}
	}
	b := make([]byte, len(s))
	for i, c := range s {
		b[i] = c.(uint8)
	}
	return string(b)
}

func bytesEqTerm(a, b []value) *Term {
	if len(a) != len(b) {
		return BoolT(false)
	}
	r := BoolT(true)
	for i := range a {
		r = BAnd(r, Cmp(OpEq, toTerm(a[i], 8), toTerm(b[i], 8)))
	}
	return r
}

// bytesLtTerm: lexicographic a < b.
func bytesLtTerm(a, b []value) *Term {
	// from the end: lt_i = a[i]<b[i] || (a[i]==b[i] && lt_{i+1})
	n := len(a)
	if len(b) < n {
		n = len(b)
	}
	res := BoolT(len(a) < len(b))
	for i := n - 1; i >= 0; i-- {
		x, y := toTerm(a[i], 8), toTerm(b[i], 8)
		res = BOr(Cmp(OpUlt, x, y), BAnd(Cmp(OpEq, x, y), res))
	}
	return res
}

func symStrBinop(op token.Token, x, y value) value {
	a, b := toSymStr(x), toSymStr(y)
	switch op {
	case token.ADD:
		out := make(symstr, 0, len(a)+len(b))
		out = append(out, a...)
		out = append(out, b...)
		return normStr(out)
	case token.EQL:
		return mkval(bytesEqTerm(a, b), types.Bool)
	case token.NEQ:
		return mkval(BNot(bytesEqTerm(a, b)), types.Bool)
	case token.LSS:
		return mkval(bytesLtTerm(a, b), types.Bool)
	case token.GTR:
		return mkval(bytesLtTerm(b, a), types.Bool)
	case token.LEQ:
		return mkval(BNot(bytesLtTerm(b, a)), types.Bool)
	case token.GEQ:
		return mkval(BNot(bytesLtTerm(a, b)), types.Bool)
	}
	panic(engineError{"symStrBinop: " + op.String()})
}

// symMapKey resolves a symbolic string key against the concrete keys of m:
// a k-way decision among the keys of equal length plus "absent".
func symMapKey(keys []string, key symstr) (string, bool) {
	var cands []string
	for _, k := range keys {
		if len(k) == len(key) {
			cands = append(cands, k)
		}
	}
	sort.Strings(cands)
	if len(cands) == 0 {
		return "", false
	}
	conds := make([]*Term, 0, len(cands)+1)
	none := BoolT(true)
	for _, k := range cands {
		c := bytesEqTerm(key, toSymStr(k))
		conds = append(conds, c)
		none = BAnd(none, BNot(c))
	}
	conds = append(conds, none)
	i := X.KWay(conds, siteSalt(23))
	if i == len(cands) {
		return "", false
	}
	return cands[i], true
}

// symRuneDecode decodes one UTF-8 sequence at the start of s (symbolic bytes),
// forking on the byte classes; mirrors the runtime's range-over-string decoder.
func symRuneDecode(s []value) (value, int) {
	br := func(c *Term, salt uint32) bool { return X.Branch(c, siteSalt(salt)) }
	b0 := toTerm(s[0], 8)
	if br(Cmp(OpUlt, b0, BV(0x80, 8)), 31) {
		return mkval(Zext(b0, 32), types.Int32), 1
	}
	bad := func() (value, int) { return int32(0xFFFD), 1 }
	in := func(t *Term, lo, hi uint64) *Term {
		return BAnd(Cmp(OpUle, BV(lo, 8), t), Cmp(OpUle, t, BV(hi, 8)))
	}
	cont := func(i int, lo, hi uint64, salt uint32) bool {
		if i >= len(s) {
			return false
		}
		return br(in(toTerm(s[i], 8), lo, hi), salt)
	}
	z := func(t *Term) *Term { return Zext(t, 32) }
	and := func(t *Term, m uint64) *Term { return Bin(OpAnd, z(t), BV(m, 32)) }
	shl := func(t *Term, n uint64) *Term { return Bin(OpShl, t, BV(n, 32)) }
	switch {
	case br(in(b0, 0xC2, 0xDF), 32):
		if !cont(1, 0x80, 0xBF, 33) {
			return bad()
		}
		r := Bin(OpOr, shl(and(b0, 0x1F), 6), and(toTerm(s[1], 8), 0x3F))
		return mkval(r, types.Int32), 2
	case br(in(b0, 0xE0, 0xEF), 34):
		lo, hi := uint64(0x80), uint64(0xBF)
		if br(Cmp(OpEq, b0, BV(0xE0, 8)), 35) {
			lo = 0xA0
		} else if br(Cmp(OpEq, b0, BV(0xED, 8)), 36) {
			hi = 0x9F
		}
		if !cont(1, lo, hi, 37) || !cont(2, 0x80, 0xBF, 38) {
			return bad()
		}
		r := Bin(OpOr, Bin(OpOr, shl(and(b0, 0x0F), 12), shl(and(toTerm(s[1], 8), 0x3F), 6)), and(toTerm(s[2], 8), 0x3F))
		return mkval(r, types.Int32), 3
	case br(in(b0, 0xF0, 0xF4), 39):
		lo, hi := uint64(0x80), uint64(0xBF)
		if br(Cmp(OpEq, b0, BV(0xF0, 8)), 40) {
			lo = 0x90
		} else if br(Cmp(OpEq, b0, BV(0xF4, 8)), 41) {
			hi = 0x8F
		}
		if !cont(1, lo, hi, 42) || !cont(2, 0x80, 0xBF, 43) || !cont(3, 0x80, 0xBF, 44) {
			return bad()
		}
		r := Bin(OpOr, Bin(OpOr, shl(and(b0, 0x07), 18), shl(and(toTerm(s[1], 8), 0x3F), 12)),
			Bin(OpOr, shl(and(toTerm(s[2], 8), 0x3F), 6), and(toTerm(s[3], 8), 0x3F)))
		return mkval(r, types.Int32), 4
	}
	return bad()
}

type symStrIter struct {
	s   symstr
	pos int
}

func (it *symStrIter) next() tuple {
	okv := make(tuple, 3)
	if it.pos >= len(it.s) {
		okv[0] = false
		okv[1] = int(0)
		okv[2] = int32(0)
		return okv
	}
	r, n := symRuneDecode(it.s[it.pos:])
	okv[0] = true
	okv[1] = it.pos
	okv[2] = r
	it.pos += n
	return okv
}
