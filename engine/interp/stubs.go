package interp

// Stubs and models for standard-library leaves reached from the library.

import (
	"fmt"
	"go/token"
	"math"
	"go/types"

	"golang.org/x/tools/go/ssa"
)

func errorValue(msg string) value {
	var cell value = structure{msg}
	return iface{t: errStringPtrType, v: &cell}
}

func init() {
	externals["fmt.Sprintf"] = func(fr *frame, args []value) value { return "fmt" }
	externals["fmt.Sprint"] = func(fr *frame, args []value) value { return "fmt" }
	externals["fmt.Sprintln"] = func(fr *frame, args []value) value { return "fmt\n" }
	externals["fmt.Errorf"] = func(fr *frame, args []value) value { return errorValue("fmt") }
	externals["(*sync.Mutex).Lock"] = func(fr *frame, args []value) value { return nil }
	externals["(*sync.Mutex).Unlock"] = func(fr *frame, args []value) value { return nil }
	externals["(*sync.RWMutex).RLock"] = func(fr *frame, args []value) value { return nil }
	externals["(*sync.RWMutex).RUnlock"] = func(fr *frame, args []value) value { return nil }
	externals["internal/stringslite.Clone"] = func(fr *frame, args []value) value { return args[0] }
	externals["strings.Clone"] = func(fr *frame, args []value) value { return args[0] }
	// sync.Pool: Get returns the most recently Put object of this path (LIFO, the behaviour of a
	// single P), else New(). An object handed to Put becomes package-level state: it is reported
	// through the global write barrier and every later write to it is reported as well.
	externals["(*sync.Pool).Get"] = func(fr *frame, args []value) value {
		p := args[0].(*value)
		if l := poolItems[p]; len(l) > 0 {
			x := l[len(l)-1]
			poolItems[p] = l[:len(l)-1]
			return x
		}
		st := (*p).(structure)
		switch nf := st[len(st)-1].(type) {
		case *ssa.Function:
			if nf != nil {
				return call(fr.i, fr, token.NoPos, nf, nil)
			}
		case *closure:
			if nf != nil {
				return call(fr.i, fr, token.NoPos, nf, nil)
			}
		}
		return iface{}
	}
	externals["(*sync.Pool).Put"] = func(fr *frame, args []value) value {
		p := args[0].(*value)
		poolItems[p] = append(poolItems[p], args[1])
		if name, ok := frozenCells[p]; ok && barrierOn {
			if X != nil && !inHarness() {
				X.GlobalWrites = append(X.GlobalWrites, name+" (sync.Pool) retains an object put in "+curInstr.Parent().String())
			}
			freezeMore(args[1], name+" (pooled object)")
		}
		return nil
	}
	posName := "github.com/tdewolff/parse/v2.Position"
	externals[posName] = nil // resolved lazily in callSSA via stubOverride
	delete(externals, posName)
	stubOverrides[posName] = func(fr *frame, args []value) (value, bool) {
		if Params["realpos"] != 0 {
			return nil, false
		}
		return tuple{1, 1, "ctx"}, true
	}
}

// stubOverrides may decline (second result false) so the real code runs.
var stubOverrides = map[string]func(fr *frame, args []value) (value, bool){}

// symRuneEncode encodes a symbolic rune to UTF-8 bytes, forking on the length class.
func symRuneEncode(r sym) []value {
	t := r.t
	if t.W != 32 {
		t = Zext(t, 32)
	}
	br := func(c *Term, salt uint32) bool { return X.Branch(c, siteSalt(salt)) }
	b := func(x *Term) value { return mkval(Extract(x, 0, 8), types.Uint8) }
	shr := func(n uint64) *Term { return Bin(OpLShr, t, BV(n, 32)) }
	low6 := func(x *Term) *Term { return Bin(OpOr, Bin(OpAnd, x, BV(0x3F, 32)), BV(0x80, 32)) }
	switch {
	case br(Cmp(OpUlt, t, BV(0x80, 32)), 81):
		return []value{b(t)}
	case br(Cmp(OpUlt, t, BV(0x800, 32)), 82):
		return []value{b(Bin(OpOr, shr(6), BV(0xC0, 32))), b(low6(t))}
	case br(BOr(Cmp(OpUlt, BV(0x10FFFF, 32), t), BAnd(Cmp(OpUle, BV(0xD800, 32), t), Cmp(OpUle, t, BV(0xDFFF, 32)))), 83):
		return []value{uint8(0xEF), uint8(0xBF), uint8(0xBD)}
	case br(Cmp(OpUlt, t, BV(0x10000, 32)), 84):
		return []value{b(Bin(OpOr, shr(12), BV(0xE0, 32))), b(low6(shr(6))), b(low6(t))}
	}
	return []value{b(Bin(OpOr, shr(18), BV(0xF0, 32))), b(low6(shr(12))), b(low6(shr(6))), b(low6(t))}
}

// ---- models of internal/bytealg (assembly in the real runtime) over possibly symbolic bytes ----

func byteCells(v value) []value {
	switch v := v.(type) {
	case []value:
		return v
	case string:
		return toSymStr(v)
	case symstr:
		return v
	}
	panic(engineError{"byteCells: unexpected operand"})
}

func indexByteTerm(s []value, c value) value {
	res := BV(^uint64(0), 64) // -1
	ct := toTerm(c, 8)
	for i := len(s) - 1; i >= 0; i-- {
		res = Ite(Cmp(OpEq, toTerm(s[i], 8), ct), BV(uint64(i), 64), res)
	}
	return mkval(res, types.Int)
}

func lastIndexByteTerm(s []value, c value) value {
	res := BV(^uint64(0), 64)
	ct := toTerm(c, 8)
	for i := 0; i < len(s); i++ {
		res = Ite(Cmp(OpEq, toTerm(s[i], 8), ct), BV(uint64(i), 64), res)
	}
	return mkval(res, types.Int)
}

func countByteTerm(s []value, c value) value {
	res := BV(0, 64)
	ct := toTerm(c, 8)
	for i := range s {
		res = Bin(OpAdd, res, Ite(Cmp(OpEq, toTerm(s[i], 8), ct), BV(1, 64), BV(0, 64)))
	}
	return mkval(res, types.Int)
}

func indexTerm(a, b []value) value {
	res := BV(^uint64(0), 64)
	for i := len(a) - len(b); i >= 0; i-- {
		res = Ite(bytesEqTerm(a[i:i+len(b)], b), BV(uint64(i), 64), res)
	}
	return mkval(res, types.Int)
}

func compareTerm(a, b []value) value {
	lt := bytesLtTerm(a, b)
	eq := bytesEqTerm(a, b)
	return mkval(Ite(eq, BV(0, 64), Ite(lt, BV(^uint64(0), 64), BV(1, 64))), types.Int)
}

func init() {
	for _, k := range []string{"bytes.Equal", "bytes.IndexByte", "strconv.Atoi", "strconv.Itoa", "strconv.FormatFloat",
		"strings.Count", "strings.EqualFold", "strings.Index", "strings.IndexByte", "strings.Replace", "strings.ToLower",
		"unicode/utf8.DecodeRuneInString"} {
		delete(externals, k)
	}
	ba := "internal/bytealg."
	externals[ba+"IndexByte"] = func(fr *frame, args []value) value { return indexByteTerm(byteCells(args[0]), args[1]) }
	externals[ba+"IndexByteString"] = externals[ba+"IndexByte"]
	externals[ba+"LastIndexByte"] = func(fr *frame, args []value) value { return lastIndexByteTerm(byteCells(args[0]), args[1]) }
	externals[ba+"LastIndexByteString"] = externals[ba+"LastIndexByte"]
	externals[ba+"Count"] = func(fr *frame, args []value) value { return countByteTerm(byteCells(args[0]), args[1]) }
	externals[ba+"CountString"] = externals[ba+"Count"]
	externals[ba+"Index"] = func(fr *frame, args []value) value { return indexTerm(byteCells(args[0]), byteCells(args[1])) }
	externals[ba+"IndexString"] = externals[ba+"Index"]
	externals[ba+"Compare"] = func(fr *frame, args []value) value { return compareTerm(byteCells(args[0]), byteCells(args[1])) }
	externals[ba+"Equal"] = func(fr *frame, args []value) value {
		return mkval(bytesEqTerm(byteCells(args[0]), byteCells(args[1])), types.Bool)
	}
	externals[ba+"MakeNoZero"] = func(fr *frame, args []value) value {
		n := int(asInt64(args[0]))
		s := make([]value, n)
		for i := range s {
			s[i] = uint8(0)
		}
		return s
	}
	// bytealg.Index* are only valid up to MaxLen in the real package; report a large limit
	externals["internal/bytealg.Cutover"] = func(fr *frame, args []value) value { return int(1 << 30) }
	externals["bytes.Index"] = func(fr *frame, args []value) value { return indexTerm(byteCells(args[0]), byteCells(args[1])) }
	externals["strings.Index"] = func(fr *frame, args []value) value { return indexTerm(byteCells(args[0]), byteCells(args[1])) }
}

// ---- ToHash summary ----
// css.ToHash / html.ToHash are generated perfect-hash lookups (FNV multiply
// chain + two table probes). Outside the C16 lemma harnesses they are replaced
// by their proved summary: ToHash(s) = h_i if s equals the i-th table name, else 0.
// The names and hashes are read from the interpreted package's own tables, and
// each h_i is obtained by running the real ToHash concretely on the name.

type hashEntry struct {
	name []byte
	h    value
}

var hashSummaries = map[string][]hashEntry{}

func buildHashSummary(fr *frame, fn *ssa.Function) []hashEntry {
	pkg := fn.Pkg
	tab := fr.i.globals[pkg.Var("_Hash_table")]
	text := fr.i.globals[pkg.Var("_Hash_text")]
	if tab == nil || text == nil {
		panic(engineError{"ToHash summary: tables not found in " + pkg.Pkg.Path()})
	}
	txt := (*text).([]value)
	var out []hashEntry
	seen := map[uint64]bool{}
	for _, e := range (*tab).(array) {
		hv := asUint64Bits(e)
		if hv == 0 || seen[hv] {
			continue
		}
		seen[hv] = true
		start, n := hv>>8, hv&0xff
		if start+n > uint64(len(txt)) {
			continue
		}
		name := make([]byte, n)
		arg := make([]value, n)
		for i := range name {
			name[i] = txt[start+uint64(i)].(uint8)
			arg[i] = name[i]
		}
		// run the real code concretely on the name
		saved := Params["realhash"]
		Params["realhash"] = 1
		h := callSSA(fr.i, fr, token.NoPos, fn, []value{arg}, nil)
		Params["realhash"] = saved
		out = append(out, hashEntry{name, h})
	}
	return out
}

func hashSummaryStub(fr *frame, args []value) (value, bool) {
	if Params["realhash"] != 0 {
		return nil, false
	}
	fn := fr.fn
	key := fn.String()
	sum, ok := hashSummaries[key]
	if !ok {
		sum = buildHashSummary(fr, fn)
		hashSummaries[key] = sum
	}
	s := args[0].([]value)
	res := BV(0, 32)
	for _, e := range sum {
		if len(e.name) != len(s) {
			continue
		}
		nameCells := make([]value, len(e.name))
		for i, c := range e.name {
			nameCells[i] = c
		}
		res = Ite(bytesEqTerm(s, nameCells), BV(asUint64Bits(e.h), 32), res)
	}
	return mkval(res, types.Uint32), true
}

func init() {
	stubOverrides["github.com/tdewolff/parse/v2/html.ToHash"] = hashSummaryStub
	stubOverrides["github.com/tdewolff/parse/v2/css.ToHash"] = hashSummaryStub
}

func init() {
	externals["math.IsNaN"] = func(fr *frame, args []value) value {
		if sx, ok := args[0].(sym); ok {
			return mkval(FUn(OpFIsNaN, sx.t), types.Bool)
		}
		f := args[0].(float64)
		return f != f
	}
	for name, op := range map[string]Op{"math.Floor": OpFFloor, "math.Ceil": OpFCeil, "math.Trunc": OpFTrunc} {
		name, op := name, op
		externals[name] = func(fr *frame, args []value) value {
			if sx, ok := args[0].(sym); ok {
				return mkval(FUn(op, sx.t), types.Float64)
			}
			f := args[0].(float64)
			switch op {
			case OpFFloor:
				return math.Floor(f)
			case OpFCeil:
				return math.Ceil(f)
			}
			return math.Trunc(f)
		}
	}
	externals["math.Abs"] = func(fr *frame, args []value) value {
		if sx, ok := args[0].(sym); ok {
			return mkval(Ite(FCmp(OpFLt, sx.t, F64(0)), FUn(OpFNeg, sx.t), sx.t), types.Float64)
		}
		f := args[0].(float64)
		if f < 0 {
			return -f
		}
		return f
	}
}

// ---- mini fmt.Sprintf: exactly the verbs the library uses (%s %d %Nd %c %02X %U %v) ----

func fmtArg(v value) value {
	if it, ok := v.(iface); ok {
		return it.v
	}
	return v
}

func miniSprintf(format string, args []value) value {
	var out symstr
	ai := 0
	next := func() value {
		if ai < len(args) {
			a := fmtArg(args[ai])
			ai++
			return a
		}
		return "%!(MISSING)"
	}
	for i := 0; i < len(format); i++ {
		c := format[i]
		if c != '%' {
			out = append(out, c)
			continue
		}
		i++
		if i >= len(format) {
			break
		}
		// flags/width
		zero := false
		width := 0
		if format[i] == '0' {
			zero = true
			i++
		}
		for i < len(format) && format[i] >= '0' && format[i] <= '9' {
			width = width*10 + int(format[i]-'0')
			i++
		}
		verb := format[i]
		var piece symstr
		switch verb {
		case '%':
			piece = symstr{uint8('%')}
		case 's', 'v':
			a := next()
			switch a := a.(type) {
			case string:
				piece = toSymStr(a)
			case symstr:
				piece = a
			case []value:
				piece = symstr(a)
			default:
				if isScalar(a) {
					piece = toSymStr(fmt.Sprint(asInt64(a)))
				} else {
					piece = toSymStr("?")
				}
			}
		case 'd':
			piece = toSymStr(fmt.Sprint(asInt64(next())))
		case 'X', 'x':
			a := asInt64(next())
			if verb == 'X' {
				piece = toSymStr(fmt.Sprintf("%X", a))
			} else {
				piece = toSymStr(fmt.Sprintf("%x", a))
			}
		case 'c':
			a := next()
			if sa, ok := a.(sym); ok {
				piece = symstr(symRuneEncode(sym{Zext(sa.t, 32), types.Int32}))
			} else {
				piece = toSymStr(string(rune(asInt64(a))))
			}
		case 'U':
			piece = toSymStr(fmt.Sprintf("%U", rune(asInt64(next()))))
		default:
			piece = toSymStr("%!" + string(verb))
			next()
		}
		for len(piece) < width {
			pad := uint8(' ')
			if zero {
				pad = '0'
			}
			piece = append(symstr{pad}, piece...)
		}
		out = append(out, piece...)
	}
	return normStr(out)
}

func init() {
	stubOverrides["fmt.Sprintf"] = func(fr *frame, args []value) (value, bool) {
		if Params["realfmt"] == 0 {
			return nil, false
		}
		f, ok := args[0].(string)
		if !ok {
			panic(engineError{"Sprintf with symbolic format"})
		}
		var va []value
		if len(args) > 1 && args[1] != nil {
			va = args[1].([]value)
		}
		return miniSprintf(f, va), true
	}
}

// ---- strings.Builder (its real methods use unsafe/abi tricks) ----

func builderBuf(v value) (structure, []value) {
	st := (*v.(*value)).(structure)
	buf, _ := st[1].([]value)
	return st, buf
}

func init() {
	nilErr := iface{}
	sb := "(*strings.Builder)."
	externals[sb+"WriteString"] = func(fr *frame, args []value) value {
		st, buf := builderBuf(args[0])
		s := byteCells(args[1])
		st[1] = append(buf, s...)
		return tuple{len(s), nilErr}
	}
	externals[sb+"Write"] = func(fr *frame, args []value) value {
		st, buf := builderBuf(args[0])
		s := args[1].([]value)
		st[1] = append(buf, s...)
		return tuple{len(s), nilErr}
	}
	externals[sb+"WriteByte"] = func(fr *frame, args []value) value {
		st, buf := builderBuf(args[0])
		st[1] = append(buf, args[1])
		return nilErr
	}
	externals[sb+"WriteRune"] = func(fr *frame, args []value) value {
		st, buf := builderBuf(args[0])
		var enc []value
		if sr, ok := args[1].(sym); ok {
			enc = symRuneEncode(sr)
		} else {
			for _, c := range []byte(string(rune(asInt64(args[1])))) {
				enc = append(enc, c)
			}
		}
		st[1] = append(buf, enc...)
		return tuple{len(enc), nilErr}
	}
	externals[sb+"String"] = func(fr *frame, args []value) value {
		_, buf := builderBuf(args[0])
		cp := make(symstr, len(buf))
		copy(cp, buf)
		return normStr(cp)
	}
	externals[sb+"Len"] = func(fr *frame, args []value) value {
		_, buf := builderBuf(args[0])
		return len(buf)
	}
	externals[sb+"Cap"] = func(fr *frame, args []value) value {
		_, buf := builderBuf(args[0])
		return cap(buf)
	}
	externals[sb+"Grow"] = func(fr *frame, args []value) value { return nil }
	externals[sb+"Reset"] = func(fr *frame, args []value) value {
		st, _ := builderBuf(args[0])
		st[1] = []value(nil)
		return nil
	}
}

func init() {
	externals["math.Float64bits"] = func(fr *frame, args []value) value {
		if sx, ok := args[0].(sym); ok {
			return mkval(X.DefineBits(sx.t), types.Uint64)
		}
		return math.Float64bits(args[0].(float64))
	}
	externals["math.Float64frombits"] = func(fr *frame, args []value) value {
		if sx, ok := args[0].(sym); ok {
			return mkval(FFromBits(sx.t), types.Float64)
		}
		return math.Float64frombits(args[0].(uint64))
	}
}
