package interp

// Stubs and models for standard-library leaves reached from the library.

import (
	"go/types"
)

func errorValue(msg string) value {
	var cell value = structure{msg}
	return iface{t: errStringPtrType, v: &cell}
}

func init() {
	externals["fmt.Sprintf"] = func(fr *frame, args []value) value { return "fmt" }
	externals["fmt.Sprint"] = func(fr *frame, args []value) value { return "fmt" }
	externals["fmt.Sprintln"] = func(fr *frame, args []value) value { return "fmt\n" }
	externals["fmt.Errorf"] = func(fr *frame, args []value) value { return errorValue("fmt") }
	externals["(*sync.Mutex).Lock"] = func(fr *frame, args []value) value { return nil }
	externals["(*sync.Mutex).Unlock"] = func(fr *frame, args []value) value { return nil }
	externals["(*sync.RWMutex).RLock"] = func(fr *frame, args []value) value { return nil }
	externals["(*sync.RWMutex).RUnlock"] = func(fr *frame, args []value) value { return nil }
	posName := "github.com/tdewolff/parse/v2.Position"
	externals[posName] = nil // resolved lazily in callSSA via stubOverride
	delete(externals, posName)
	stubOverrides[posName] = func(fr *frame, args []value) (value, bool) {
		if Params["realpos"] != 0 {
			return nil, false
		}
		return tuple{1, 1, "ctx"}, true
	}
}

// stubOverrides may decline (second result false) so the real code runs.
var stubOverrides = map[string]func(fr *frame, args []value) (value, bool){}

// symRuneEncode encodes a symbolic rune to UTF-8 bytes, forking on the length class.
func symRuneEncode(r sym) []value {
	t := r.t
	if t.W != 32 {
		t = Zext(t, 32)
	}
	br := func(c *Term, salt uint32) bool { return X.Branch(c, siteSalt(salt)) }
	b := func(x *Term) value { return mkval(Extract(x, 0, 8), types.Uint8) }
	shr := func(n uint64) *Term { return Bin(OpLShr, t, BV(n, 32)) }
	low6 := func(x *Term) *Term { return Bin(OpOr, Bin(OpAnd, x, BV(0x3F, 32)), BV(0x80, 32)) }
	switch {
	case br(Cmp(OpUlt, t, BV(0x80, 32)), 81):
		return []value{b(t)}
	case br(Cmp(OpUlt, t, BV(0x800, 32)), 82):
		return []value{b(Bin(OpOr, shr(6), BV(0xC0, 32))), b(low6(t))}
	case br(BOr(Cmp(OpUlt, BV(0x10FFFF, 32), t), BAnd(Cmp(OpUle, BV(0xD800, 32), t), Cmp(OpUle, t, BV(0xDFFF, 32)))), 83):
		return []value{uint8(0xEF), uint8(0xBF), uint8(0xBD)}
	case br(Cmp(OpUlt, t, BV(0x10000, 32)), 84):
		return []value{b(Bin(OpOr, shr(12), BV(0xE0, 32))), b(low6(shr(6))), b(low6(t))}
	}
	return []value{b(Bin(OpOr, shr(18), BV(0xF0, 32))), b(low6(shr(12))), b(low6(shr(6))), b(low6(t))}
}
