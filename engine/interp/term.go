package interp

// SMT term layer: hash-consed bit-vector / boolean / float64 terms with constant
// folding, a concrete evaluator (used for model-guided exploration and replay
// prediction) and an SMT-LIB2 printer.

import (
	"fmt"
	"math"
	"math/bits"
	"strings"
)

type Op uint8

const (
	OpConst Op = iota
	OpVar
	// bit-vector
	OpAdd
	OpSub
	OpMul
	OpUDiv
	OpSDiv
	OpURem
	OpSRem
	OpAnd
	OpOr
	OpXor
	OpNot
	OpNeg
	OpShl
	OpLShr
	OpAShr
	OpExtract // K = lo, W = width
	OpZext
	OpSext
	OpIte
	// predicates (Bool sort)
	OpEq
	OpUlt
	OpUle
	OpSlt
	OpSle
	OpBAnd
	OpBOr
	OpBNot
	OpTable // A = index (BV), Tab = table
	// floating point (sort F64)
	OpFAdd
	OpFSub
	OpFMul
	OpFDiv
	OpFNeg
	OpFFloor
	OpFCeil
	OpFTrunc
	OpFLt
	OpFLe
	OpFEq    // IEEE ==
	OpFIsNaN // Bool
	OpFIsInf // Bool
	OpSToF   // signed BV -> F64 (RNE)
	OpUToF   // unsigned BV -> F64 (RNE)
	OpFToS   // F64 -> signed BV (RTZ); out of range unspecified
	OpFToU   // F64 -> unsigned BV (RTZ)
	OpFBits  // F64 -> BV64 (unused; Float64bits is modelled by a defined variable, see DefineBits)
	OpFFromBits // BV64 -> F64 reinterpretation ((_ to_fp 11 53) bv)
	OpFSame     // Bool: bitwise-identical floats (SMT `=` on FloatingPoint)
	OpUF     // uninterpreted function: Name, A = argument; W = result width (0 bool)
)

// Sort encoding: W==0 → Bool; W in 1..64 and !F → BitVec W; F → Float64.
type Term struct {
	Op      Op
	W       uint8
	F       bool
	A, B, C *Term
	K       uint64
	Name    string
	Tab     *Table
	id      int32
}

type Table struct {
	Name string
	Vals []uint64 // value per index
	W    uint8    // result width (0 = bool)
	IW   uint8    // index width
}

type termKey struct {
	op      Op
	w       uint8
	f       bool
	a, b, c int32
	k       uint64
	name    string
}

type TermStore struct {
	tab    map[termKey]*Term
	nextID int32
}

var TS = &TermStore{tab: map[termKey]*Term{}}

func (s *TermStore) Reset() {
	s.tab = map[termKey]*Term{}
	s.nextID = 0
}

func tid(t *Term) int32 {
	if t == nil {
		return -1
	}
	return t.id
}

func mk(op Op, w uint8, f bool, a, b, c *Term, k uint64, name string, tab *Table) *Term {
	key := termKey{op, w, f, tid(a), tid(b), tid(c), k, name}
	if t, ok := TS.tab[key]; ok {
		return t
	}
	TS.nextID++
	t := &Term{Op: op, W: w, F: f, A: a, B: b, C: c, K: k, Name: name, Tab: tab, id: TS.nextID}
	TS.tab[key] = t
	return t
}

func mask(w uint8) uint64 {
	if w >= 64 {
		return ^uint64(0)
	}
	return (uint64(1) << w) - 1
}

func sext64(v uint64, w uint8) int64 {
	if w >= 64 {
		return int64(v)
	}
	sh := 64 - uint(w)
	return int64(v<<sh) >> sh
}

func (t *Term) IsConst() bool { return t.Op == OpConst }
func (t *Term) IsBool() bool  { return t.W == 0 && !t.F }

func BV(v uint64, w uint8) *Term { return mk(OpConst, w, false, nil, nil, nil, v&mask(w), "", nil) }
func BoolT(b bool) *Term {
	if b {
		return mk(OpConst, 0, false, nil, nil, nil, 1, "", nil)
	}
	return mk(OpConst, 0, false, nil, nil, nil, 0, "", nil)
}
func F64(f float64) *Term {
	return mk(OpConst, 64, true, nil, nil, nil, math.Float64bits(f), "", nil)
}
func Var(name string, w uint8, f bool) *Term { return mk(OpVar, w, f, nil, nil, nil, 0, name, nil) }

func isTrue(t *Term) bool  { return t.Op == OpConst && t.W == 0 && t.K == 1 }
func isFalse(t *Term) bool { return t.Op == OpConst && t.W == 0 && t.K == 0 }

func evalBin(op Op, w uint8, x, y uint64) uint64 {
	m := mask(w)
	switch op {
	case OpAdd:
		return (x + y) & m
	case OpSub:
		return (x - y) & m
	case OpMul:
		return (x * y) & m
	case OpUDiv:
		if y == 0 {
			return m
		}
		return x / y
	case OpURem:
		if y == 0 {
			return x
		}
		return x % y
	case OpSDiv:
		sx, sy := sext64(x, w), sext64(y, w)
		if sy == 0 {
			if sx < 0 {
				return 1
			}
			return m
		}
		if sy == -1 {
			return uint64(-sx) & m
		}
		return uint64(sx/sy) & m
	case OpSRem:
		sx, sy := sext64(x, w), sext64(y, w)
		if sy == 0 {
			return x
		}
		if sy == -1 {
			return 0
		}
		return uint64(sx%sy) & m
	case OpAnd:
		return x & y
	case OpOr:
		return x | y
	case OpXor:
		return x ^ y
	case OpShl:
		if y >= uint64(w) {
			return 0
		}
		return (x << y) & m
	case OpLShr:
		if y >= uint64(w) {
			return 0
		}
		return x >> y
	case OpAShr:
		sx := sext64(x, w)
		if y >= uint64(w) {
			y = uint64(w) - 1
		}
		return uint64(sx>>y) & m
	}
	panic("evalBin")
}

func b2u(b bool) uint64 {
	if b {
		return 1
	}
	return 0
}

func evalCmp(op Op, w uint8, x, y uint64) bool {
	switch op {
	case OpEq:
		return x == y
	case OpUlt:
		return x < y
	case OpUle:
		return x <= y
	case OpSlt:
		return sext64(x, w) < sext64(y, w)
	case OpSle:
		return sext64(x, w) <= sext64(y, w)
	}
	panic("evalCmp")
}

// Bin builds a bit-vector binary operation.
func Bin(op Op, a, b *Term) *Term {
	if a.W != b.W || a.F || b.F {
		panic(fmt.Sprintf("Bin: sort mismatch %d %d op %d", a.W, b.W, op))
	}
	w := a.W
	if a.IsConst() && b.IsConst() {
		return BV(evalBin(op, w, a.K, b.K), w)
	}
	switch op {
	case OpAdd:
		if a.IsConst() && a.K == 0 {
			return b
		}
		if b.IsConst() && b.K == 0 {
			return a
		}
		if a.IsConst() { // canonical: const on the right
			a, b = b, a
		}
		// (x + c1) + c2
		if b.IsConst() && a.Op == OpAdd && a.B.IsConst() {
			return Bin(OpAdd, a.A, BV(a.B.K+b.K, w))
		}
	case OpSub:
		if b.IsConst() {
			return Bin(OpAdd, a, BV(-b.K, w))
		}
		if a == b {
			return BV(0, w)
		}
	case OpMul:
		if a.IsConst() {
			a, b = b, a
		}
		if b.IsConst() {
			if b.K == 0 {
				return b
			}
			if b.K == 1 {
				return a
			}
		}
	case OpAnd:
		if a.IsConst() {
			a, b = b, a
		}
		if b.IsConst() {
			if b.K == 0 {
				return b
			}
			if b.K == mask(w) {
				return a
			}
		}
		if a == b {
			return a
		}
	case OpOr:
		if a.IsConst() {
			a, b = b, a
		}
		if b.IsConst() {
			if b.K == 0 {
				return a
			}
			if b.K == mask(w) {
				return b
			}
		}
		if a == b {
			return a
		}
	case OpXor:
		if a.IsConst() {
			a, b = b, a
		}
		if b.IsConst() && b.K == 0 {
			return a
		}
		if a == b {
			return BV(0, w)
		}
	case OpShl, OpLShr, OpAShr:
		if b.IsConst() && b.K == 0 {
			return a
		}
	}
	return mk(op, w, false, a, b, nil, 0, "", nil)
}

func Un(op Op, a *Term) *Term {
	switch op {
	case OpNot:
		if a.IsConst() {
			return BV(^a.K, a.W)
		}
		if a.Op == OpNot {
			return a.A
		}
	case OpNeg:
		if a.IsConst() {
			return BV(-a.K, a.W)
		}
	default:
		panic("Un")
	}
	return mk(op, a.W, false, a, nil, nil, 0, "", nil)
}

// umax returns an upper bound of the unsigned value of t (cheap syntactic analysis).
func umax(t *Term) uint64 {
	switch t.Op {
	case OpConst:
		return t.K
	case OpZext:
		return umax(t.A)
	case OpAnd:
		a, b := umax(t.A), umax(t.B)
		if a < b {
			return a
		}
		return b
	case OpIte:
		a, b := umax(t.B), umax(t.C)
		if a > b {
			return a
		}
		return b
	case OpLShr:
		if t.B.IsConst() && t.B.K < 64 {
			return umax(t.A) >> t.B.K
		}
	case OpTable:
		var m uint64
		for _, v := range t.Tab.Vals {
			if v > m {
				m = v
			}
		}
		return m
	}
	return mask(t.W)
}

func Cmp(op Op, a, b *Term) *Term {
	if a.F || b.F {
		panic("Cmp on float")
	}
	if a.W != b.W {
		panic(fmt.Sprintf("Cmp: width mismatch %d %d", a.W, b.W))
	}
	if a.IsConst() && b.IsConst() {
		return BoolT(evalCmp(op, a.W, a.K, b.K))
	}
	if a == b {
		switch op {
		case OpEq, OpUle, OpSle:
			return BoolT(true)
		default:
			return BoolT(false)
		}
	}
	if a.W == 0 { // boolean equality
		if op != OpEq {
			panic("Cmp bool")
		}
		if a.IsConst() {
			a, b = b, a
		}
		if b.IsConst() {
			if b.K == 1 {
				return a
			}
			return BNot(a)
		}
		return mk(OpEq, 0, false, a, b, nil, 0, "", nil)
	}
	if op == OpEq && a.IsConst() {
		a, b = b, a
	}
	// cheap range reasoning
	switch op {
	case OpEq:
		if b.IsConst() && umax(a) < b.K {
			return BoolT(false)
		}
		// zext(x) == c  →  x == c'
		if b.IsConst() && a.Op == OpZext {
			return Cmp(OpEq, a.A, BV(b.K, a.A.W))
		}
		// ite(c, k1, k2) == k
		if b.IsConst() && a.Op == OpIte && a.B.IsConst() && a.C.IsConst() {
			e1, e2 := a.B.K == b.K, a.C.K == b.K
			switch {
			case e1 && e2:
				return BoolT(true)
			case e1:
				return a.A
			case e2:
				return BNot(a.A)
			default:
				return BoolT(false)
			}
		}
	case OpUlt:
		if b.IsConst() && umax(a) < b.K {
			return BoolT(true)
		}
		if b.IsConst() && b.K == 0 {
			return BoolT(false)
		}
		if a.IsConst() && a.K >= umax(b) {
			return BoolT(false)
		}
		if a.Op == OpZext && b.IsConst() {
			return Cmp(OpUlt, a.A, BV(b.K, a.A.W))
		}
		if b.Op == OpZext && a.IsConst() {
			return Cmp(OpUlt, BV(a.K, b.A.W), b.A)
		}
	case OpUle:
		if b.IsConst() && umax(a) <= b.K {
			return BoolT(true)
		}
		if a.IsConst() && a.K == 0 {
			return BoolT(true)
		}
		if a.IsConst() && a.K > umax(b) {
			return BoolT(false)
		}
		if a.Op == OpZext && b.IsConst() {
			return Cmp(OpUle, a.A, BV(b.K, a.A.W))
		}
		if b.Op == OpZext && a.IsConst() {
			return Cmp(OpUle, BV(a.K, b.A.W), b.A)
		}
	case OpSlt, OpSle:
		// both known non-negative → unsigned comparison
		if a.W > 1 {
			half := uint64(1) << (a.W - 1)
			if umax(a) < half && umax(b) < half {
				if op == OpSlt {
					return Cmp(OpUlt, a, b)
				}
				return Cmp(OpUle, a, b)
			}
		}
	}
	return mk(op, 0, false, a, b, nil, 0, "", nil)
}

func BNot(a *Term) *Term {
	if a.W != 0 || a.F {
		panic("BNot: not bool")
	}
	if a.IsConst() {
		return BoolT(a.K == 0)
	}
	if a.Op == OpBNot {
		return a.A
	}
	return mk(OpBNot, 0, false, a, nil, nil, 0, "", nil)
}

func BAnd(a, b *Term) *Term {
	if isFalse(a) || isFalse(b) {
		return BoolT(false)
	}
	if isTrue(a) {
		return b
	}
	if isTrue(b) {
		return a
	}
	if a == b {
		return a
	}
	return mk(OpBAnd, 0, false, a, b, nil, 0, "", nil)
}

func BOr(a, b *Term) *Term {
	if isTrue(a) || isTrue(b) {
		return BoolT(true)
	}
	if isFalse(a) {
		return b
	}
	if isFalse(b) {
		return a
	}
	if a == b {
		return a
	}
	return mk(OpBOr, 0, false, a, b, nil, 0, "", nil)
}

func Ite(c, a, b *Term) *Term {
	if isTrue(c) {
		return a
	}
	if isFalse(c) {
		return b
	}
	if a == b {
		return a
	}
	if a.W != b.W || a.F != b.F {
		panic("Ite: sort mismatch")
	}
	if a.W == 0 && !a.F {
		if isTrue(a) && isFalse(b) {
			return c
		}
		if isFalse(a) && isTrue(b) {
			return BNot(c)
		}
		if isTrue(a) {
			return BOr(c, b)
		}
		if isFalse(a) {
			return BAnd(BNot(c), b)
		}
		if isTrue(b) {
			return BOr(BNot(c), a)
		}
		if isFalse(b) {
			return BAnd(c, a)
		}
	}
	return mk(OpIte, a.W, a.F, c, a, b, 0, "", nil)
}

func Extract(a *Term, lo, w uint8) *Term {
	if lo == 0 && w == a.W {
		return a
	}
	if a.IsConst() {
		return BV(a.K>>lo, w)
	}
	if (a.Op == OpZext || a.Op == OpSext) && lo == 0 {
		if w == a.A.W {
			return a.A
		}
		if w < a.A.W {
			return Extract(a.A, 0, w)
		}
		if a.Op == OpZext {
			return Zext(a.A, w)
		}
		return Sext(a.A, w)
	}
	return mk(OpExtract, w, false, a, nil, nil, uint64(lo), "", nil)
}

func Zext(a *Term, w uint8) *Term {
	if w == a.W {
		return a
	}
	if w < a.W {
		return Extract(a, 0, w)
	}
	if a.IsConst() {
		return BV(a.K, w)
	}
	if a.Op == OpZext {
		return Zext(a.A, w)
	}
	return mk(OpZext, w, false, a, nil, nil, 0, "", nil)
}

func Sext(a *Term, w uint8) *Term {
	if w == a.W {
		return a
	}
	if w < a.W {
		return Extract(a, 0, w)
	}
	if a.IsConst() {
		return BV(uint64(sext64(a.K, a.W)), w)
	}
	if a.Op == OpZext { // zero-extended value is non-negative
		return Zext(a.A, w)
	}
	return mk(OpSext, w, false, a, nil, nil, 0, "", nil)
}

func TableLookup(tab *Table, idx *Term) *Term {
	if idx.IsConst() {
		if idx.K < uint64(len(tab.Vals)) {
			if tab.W == 0 {
				return BoolT(tab.Vals[idx.K] != 0)
			}
			return BV(tab.Vals[idx.K], tab.W)
		}
	}
	return mk(OpTable, tab.W, false, idx, nil, nil, 0, tab.Name, tab)
}

func UF(name string, arg *Term, w uint8) *Term {
	return mk(OpUF, w, false, arg, nil, nil, 0, name, nil)
}

// ---- floating point ----

func FBin(op Op, a, b *Term) *Term {
	if a.IsConst() && b.IsConst() {
		x, y := math.Float64frombits(a.K), math.Float64frombits(b.K)
		switch op {
		case OpFAdd:
			return F64(x + y)
		case OpFSub:
			return F64(x - y)
		case OpFMul:
			return F64(x * y)
		case OpFDiv:
			return F64(x / y)
		}
	}
	return mk(op, 64, true, a, b, nil, 0, "", nil)
}

func FCmp(op Op, a, b *Term) *Term {
	if a.IsConst() && b.IsConst() {
		x, y := math.Float64frombits(a.K), math.Float64frombits(b.K)
		switch op {
		case OpFLt:
			return BoolT(x < y)
		case OpFLe:
			return BoolT(x <= y)
		case OpFEq:
			return BoolT(x == y)
		}
	}
	return mk(op, 0, false, a, b, nil, 0, "", nil)
}

func FUn(op Op, a *Term) *Term {
	if a.IsConst() {
		x := math.Float64frombits(a.K)
		switch op {
		case OpFNeg:
			return F64(-x)
		case OpFFloor:
			return F64(math.Floor(x))
		case OpFCeil:
			return F64(math.Ceil(x))
		case OpFTrunc:
			return F64(math.Trunc(x))
		case OpFIsNaN:
			return BoolT(math.IsNaN(x))
		case OpFIsInf:
			return BoolT(math.IsInf(x, 0))
		}
	}
	switch op {
	case OpFNeg, OpFFloor, OpFCeil, OpFTrunc:
		return mk(op, 64, true, a, nil, nil, 0, "", nil)
	default:
		return mk(op, 0, false, a, nil, nil, 0, "", nil)
	}
}

func FFromBits(a *Term) *Term {
	if a.IsConst() {
		return mk(OpConst, 64, true, nil, nil, nil, a.K, "", nil)
	}
	return mk(OpFFromBits, 64, true, a, nil, nil, 0, "", nil)
}

func FSame(a, b *Term) *Term {
	if a.IsConst() && b.IsConst() {
		return BoolT(a.K == b.K)
	}
	return mk(OpFSame, 0, false, a, b, nil, 0, "", nil)
}

func IntToF(a *Term, signed bool) *Term {
	if a.IsConst() {
		if signed {
			return F64(float64(sext64(a.K, a.W)))
		}
		return F64(float64(a.K))
	}
	if signed {
		return mk(OpSToF, 64, true, a, nil, nil, 0, "", nil)
	}
	return mk(OpUToF, 64, true, a, nil, nil, 0, "", nil)
}

func FToInt(a *Term, w uint8, signed bool) *Term {
	if a.IsConst() {
		x := math.Float64frombits(a.K)
		if signed {
			return BV(uint64(int64(x)), w)
		}
		return BV(uint64(x), w)
	}
	if signed {
		return mk(OpFToS, w, false, a, nil, nil, 0, "", nil)
	}
	return mk(OpFToU, w, false, a, nil, nil, 0, "", nil)
}

// ---- evaluation under a model ----

type Model map[string]uint64

type Evaluator struct {
	M     Model
	cache map[*Term]uint64
	UFs   map[string]map[uint64]uint64
}

func NewEvaluator(m Model) *Evaluator {
	return &Evaluator{M: m, cache: map[*Term]uint64{}, UFs: map[string]map[uint64]uint64{}}
}

// Prime records the solver's interpretation of the uninterpreted-function
// applications seen so far (model entries named like the application's define-fun).
func (e *Evaluator) Prime(apps []*Term) {
	for _, t := range apps {
		if v, ok := e.M[fmt.Sprintf("t%d", t.id)]; ok {
			a := e.Eval(t.A)
			tab := e.UFs[t.Name]
			if tab == nil {
				tab = map[uint64]uint64{}
				e.UFs[t.Name] = tab
			}
			if _, dup := tab[a]; !dup {
				tab[a] = v
			}
		}
	}
}

func (e *Evaluator) Bool(t *Term) bool { return e.Eval(t) != 0 }

func (e *Evaluator) Eval(t *Term) uint64 {
	switch t.Op {
	case OpConst:
		return t.K
	case OpVar:
		return e.M[t.Name] & maskSort(t)
	}
	if v, ok := e.cache[t]; ok {
		return v
	}
	var v uint64
	switch t.Op {
	case OpAdd, OpSub, OpMul, OpUDiv, OpSDiv, OpURem, OpSRem, OpAnd, OpOr, OpXor, OpShl, OpLShr, OpAShr:
		v = evalBin(t.Op, t.W, e.Eval(t.A), e.Eval(t.B))
	case OpNot:
		v = ^e.Eval(t.A) & mask(t.W)
	case OpNeg:
		v = -e.Eval(t.A) & mask(t.W)
	case OpExtract:
		v = (e.Eval(t.A) >> t.K) & mask(t.W)
	case OpZext:
		v = e.Eval(t.A)
	case OpSext:
		v = uint64(sext64(e.Eval(t.A), t.A.W)) & mask(t.W)
	case OpIte:
		if e.Eval(t.A) != 0 {
			v = e.Eval(t.B)
		} else {
			v = e.Eval(t.C)
		}
	case OpEq:
		if t.A.F {
			panic("OpEq on float")
		}
		v = b2u(e.Eval(t.A) == e.Eval(t.B))
	case OpUlt, OpUle, OpSlt, OpSle:
		v = b2u(evalCmp(t.Op, t.A.W, e.Eval(t.A), e.Eval(t.B)))
	case OpBAnd:
		v = b2u(e.Eval(t.A) != 0 && e.Eval(t.B) != 0)
	case OpBOr:
		v = b2u(e.Eval(t.A) != 0 || e.Eval(t.B) != 0)
	case OpBNot:
		v = b2u(e.Eval(t.A) == 0)
	case OpTable:
		i := e.Eval(t.A)
		if i < uint64(len(t.Tab.Vals)) {
			v = t.Tab.Vals[i]
		}
	case OpUF:
		a := e.Eval(t.A)
		tab := e.UFs[t.Name]
		if tab == nil {
			tab = map[uint64]uint64{}
			e.UFs[t.Name] = tab
		}
		if r, ok := tab[a]; ok {
			v = r
		} else {
			if mv, ok := e.M[fmt.Sprintf("t%d", t.id)]; ok {
				v = mv
			}
			tab[a] = v
		}
	case OpFAdd:
		v = math.Float64bits(math.Float64frombits(e.Eval(t.A)) + math.Float64frombits(e.Eval(t.B)))
	case OpFSub:
		v = math.Float64bits(math.Float64frombits(e.Eval(t.A)) - math.Float64frombits(e.Eval(t.B)))
	case OpFMul:
		v = math.Float64bits(math.Float64frombits(e.Eval(t.A)) * math.Float64frombits(e.Eval(t.B)))
	case OpFDiv:
		v = math.Float64bits(math.Float64frombits(e.Eval(t.A)) / math.Float64frombits(e.Eval(t.B)))
	case OpFNeg:
		v = math.Float64bits(-math.Float64frombits(e.Eval(t.A)))
	case OpFFloor:
		v = math.Float64bits(math.Floor(math.Float64frombits(e.Eval(t.A))))
	case OpFCeil:
		v = math.Float64bits(math.Ceil(math.Float64frombits(e.Eval(t.A))))
	case OpFTrunc:
		v = math.Float64bits(math.Trunc(math.Float64frombits(e.Eval(t.A))))
	case OpFLt:
		v = b2u(math.Float64frombits(e.Eval(t.A)) < math.Float64frombits(e.Eval(t.B)))
	case OpFLe:
		v = b2u(math.Float64frombits(e.Eval(t.A)) <= math.Float64frombits(e.Eval(t.B)))
	case OpFEq:
		v = b2u(math.Float64frombits(e.Eval(t.A)) == math.Float64frombits(e.Eval(t.B)))
	case OpFIsNaN:
		v = b2u(math.IsNaN(math.Float64frombits(e.Eval(t.A))))
	case OpFIsInf:
		v = b2u(math.IsInf(math.Float64frombits(e.Eval(t.A)), 0))
	case OpSToF:
		v = math.Float64bits(float64(sext64(e.Eval(t.A), t.A.W)))
	case OpUToF:
		v = math.Float64bits(float64(e.Eval(t.A)))
	case OpFToS:
		v = uint64(int64(math.Float64frombits(e.Eval(t.A)))) & mask(t.W)
	case OpFToU:
		v = uint64(math.Float64frombits(e.Eval(t.A))) & mask(t.W)
	case OpFBits, OpFFromBits:
		v = e.Eval(t.A)
	case OpFSame:
		v = b2u(e.Eval(t.A) == e.Eval(t.B))
	default:
		panic(fmt.Sprintf("Eval: op %d", t.Op))
	}
	e.cache[t] = v
	return v
}

func maskSort(t *Term) uint64 {
	if t.F {
		return ^uint64(0)
	}
	if t.W == 0 {
		return 1
	}
	return mask(t.W)
}

// ---- SMT-LIB printing ----

func sortStr(t *Term) string {
	if t.F {
		return "(_ FloatingPoint 11 53)"
	}
	if t.W == 0 {
		return "Bool"
	}
	return fmt.Sprintf("(_ BitVec %d)", t.W)
}

func constStr(t *Term) string {
	if t.F {
		b := t.K
		return fmt.Sprintf("(fp #b%d #b%011b #b%052b)", b>>63, (b>>52)&0x7ff, b&((1<<52)-1))
	}
	if t.W == 0 {
		if t.K != 0 {
			return "true"
		}
		return "false"
	}
	if t.W%4 == 0 {
		return fmt.Sprintf("#x%0*x", int(t.W/4), t.K)
	}
	return fmt.Sprintf("(_ bv%d %d)", t.K, t.W)
}

var opNames = map[Op]string{
	OpAdd: "bvadd", OpSub: "bvsub", OpMul: "bvmul", OpUDiv: "bvudiv", OpSDiv: "bvsdiv", OpURem: "bvurem", OpSRem: "bvsrem",
	OpAnd: "bvand", OpOr: "bvor", OpXor: "bvxor", OpNot: "bvnot", OpNeg: "bvneg", OpShl: "bvshl", OpLShr: "bvlshr", OpAShr: "bvashr",
	OpEq: "=", OpUlt: "bvult", OpUle: "bvule", OpSlt: "bvslt", OpSle: "bvsle", OpBAnd: "and", OpBOr: "or", OpBNot: "not", OpIte: "ite",
	OpFAdd: "fp.add RNE", OpFSub: "fp.sub RNE", OpFMul: "fp.mul RNE", OpFDiv: "fp.div RNE", OpFNeg: "fp.neg", OpFFloor: "fp.roundToIntegral RTN", OpFCeil: "fp.roundToIntegral RTP", OpFTrunc: "fp.roundToIntegral RTZ",
	OpFLt: "fp.lt", OpFLe: "fp.leq", OpFEq: "fp.eq", OpFIsNaN: "fp.isNaN", OpFIsInf: "fp.isInfinite",
}

// Printer emits definitions for terms incrementally.
type Printer struct {
	defined map[*Term]string
	tables  map[*Table]bool
	ufs     map[string]bool
	out     *strings.Builder
	Vars    []*Term
	UFApps  []*Term
}

func NewPrinter() *Printer {
	return &Printer{defined: map[*Term]string{}, tables: map[*Table]bool{}, ufs: map[string]bool{}, out: &strings.Builder{}}
}

// Ref returns the name to use for t, emitting any needed declarations into p.out.
func (p *Printer) Ref(t *Term) string {
	if t.Op == OpConst {
		return constStr(t)
	}
	if n, ok := p.defined[t]; ok {
		return n
	}
	var n string
	switch t.Op {
	case OpVar:
		n = t.Name
		fmt.Fprintf(p.out, "(declare-const %s %s)\n", n, sortStr(t))
		p.Vars = append(p.Vars, t)
		p.defined[t] = n
		return n
	}
	var body string
	switch t.Op {
	case OpExtract:
		body = fmt.Sprintf("((_ extract %d %d) %s)", int(t.K)+int(t.W)-1, t.K, p.Ref(t.A))
	case OpZext:
		body = fmt.Sprintf("((_ zero_extend %d) %s)", t.W-t.A.W, p.Ref(t.A))
	case OpSext:
		body = fmt.Sprintf("((_ sign_extend %d) %s)", t.W-t.A.W, p.Ref(t.A))
	case OpTable:
		p.emitTable(t.Tab)
		body = fmt.Sprintf("(%s %s)", t.Tab.Name, p.Ref(t.A))
	case OpUF:
		if !p.ufs[t.Name] {
			p.ufs[t.Name] = true
			rs := "Bool"
			if t.W != 0 {
				rs = fmt.Sprintf("(_ BitVec %d)", t.W)
			}
			fmt.Fprintf(p.out, "(declare-fun %s (%s) %s)\n", t.Name, sortStr(t.A), rs)
		}
		body = fmt.Sprintf("(%s %s)", t.Name, p.Ref(t.A))
	case OpSToF:
		body = fmt.Sprintf("((_ to_fp 11 53) RNE %s)", p.Ref(t.A))
	case OpUToF:
		body = fmt.Sprintf("((_ to_fp_unsigned 11 53) RNE %s)", p.Ref(t.A))
	case OpFToS:
		body = fmt.Sprintf("((_ fp.to_sbv %d) RTZ %s)", t.W, p.Ref(t.A))
	case OpFToU:
		body = fmt.Sprintf("((_ fp.to_ubv %d) RTZ %s)", t.W, p.Ref(t.A))
	case OpFFromBits:
		body = fmt.Sprintf("((_ to_fp 11 53) %s)", p.Ref(t.A))
	case OpFSame:
		body = fmt.Sprintf("(= %s %s)", p.Ref(t.A), p.Ref(t.B))
	default:
		name, ok := opNames[t.Op]
		if !ok {
			panic(fmt.Sprintf("print: op %d", t.Op))
		}
		args := []string{p.Ref(t.A)}
		if t.B != nil {
			args = append(args, p.Ref(t.B))
		}
		if t.C != nil {
			args = append(args, p.Ref(t.C))
		}
		body = "(" + name + " " + strings.Join(args, " ") + ")"
	}
	n = fmt.Sprintf("t%d", t.id)
	fmt.Fprintf(p.out, "(define-fun %s () %s %s)\n", n, sortStr(t), body)
	p.defined[t] = n
	if t.Op == OpUF {
		p.UFApps = append(p.UFApps, t)
	}
	return n
}

func (p *Printer) emitTable(tab *Table) {
	if p.tables[tab] {
		return
	}
	p.tables[tab] = true
	fmt.Fprintf(p.out, "%s", tableDef(tab))
}

// tableDef renders a constant table as a define-fun: an ite chain over
// maximal index ranges of equal value (most frequent value as default).
func tableDef(tab *Table) string {
	var sb strings.Builder
	rs := "Bool"
	if tab.W != 0 {
		rs = fmt.Sprintf("(_ BitVec %d)", tab.W)
	}
	val := func(v uint64) string {
		if tab.W == 0 {
			if v != 0 {
				return "true"
			}
			return "false"
		}
		return constStr(&Term{Op: OpConst, W: tab.W, K: v})
	}
	idx := func(i int) string { return constStr(&Term{Op: OpConst, W: tab.IW, K: uint64(i)}) }
	// default = most frequent value; indices beyond the table map to 0 (never read: bounds checked first)
	freq := map[uint64]int{}
	for _, v := range tab.Vals {
		freq[v]++
	}
	def, best := uint64(0), -1
	for v, c := range freq {
		if c > best || (c == best && v < def) {
			def, best = v, c
		}
	}
	fmt.Fprintf(&sb, "(define-fun %s ((i (_ BitVec %d))) %s ", tab.Name, tab.IW, rs)
	closers := 0
	n := len(tab.Vals)
	for i := 0; i < n; {
		j := i
		for j+1 < n && tab.Vals[j+1] == tab.Vals[i] {
			j++
		}
		if tab.Vals[i] != def {
			if i == j {
				fmt.Fprintf(&sb, "(ite (= i %s) %s ", idx(i), val(tab.Vals[i]))
			} else {
				fmt.Fprintf(&sb, "(ite (and (bvule %s i) (bvule i %s)) %s ", idx(i), idx(j), val(tab.Vals[i]))
			}
			closers++
		}
		i = j + 1
	}
	sb.WriteString(val(def))
	sb.WriteString(strings.Repeat(")", closers))
	sb.WriteString(")\n")
	return sb.String()
}

func (p *Printer) Flush() string {
	s := p.out.String()
	p.out.Reset()
	return s
}

func termSize(t *Term, seen map[*Term]bool) int {
	if t == nil || seen[t] {
		return 0
	}
	seen[t] = true
	return 1 + termSize(t.A, seen) + termSize(t.B, seen) + termSize(t.C, seen)
}

var _ = bits.Len
