package interp

// Persistent SMT solver processes (z3 -in primary; z3-new and cvc5 as portfolio
// fall-backs on unknown / timeout).

import (
	"bufio"
	"fmt"
	"io"
	"os"
	"os/exec"
	"strconv"
	"strings"
	"time"
)

type SatResult int

const (
	Unsat SatResult = iota
	Sat
	Unknown
)

func (r SatResult) String() string { return [...]string{"unsat", "sat", "unknown"}[r] }

type Solver struct {
	cmd       *exec.Cmd
	in        io.WriteCloser
	out       *bufio.Reader
	Queries   int64
	Time      time.Duration
	Errors    int64
	TimeoutMs int
	Name      string
	Killed    bool
	log       *os.File
}

func NewSolver(timeoutMs int) *Solver {
	s := &Solver{TimeoutMs: timeoutMs, Name: "z3-new"}
	s.start()
	return s
}

func (s *Solver) start() {
	bin := os.Getenv("GOSX_Z3")
	if bin == "" {
		bin = "z3-new" // z3 5.1.0: z3 4.8.12 degrades badly over thousands of push/pop scopes with define-funs
	}
	s.cmd = exec.Command(bin, "-in")
	var err error
	s.in, err = s.cmd.StdinPipe()
	if err != nil {
		panic(err)
	}
	o, err := s.cmd.StdoutPipe()
	if err != nil {
		panic(err)
	}
	s.cmd.Stderr = os.Stderr
	s.out = bufio.NewReaderSize(o, 1<<16)
	if err := s.cmd.Start(); err != nil {
		panic(err)
	}
	if f := os.Getenv("GOSX_SMTLOG"); f != "" {
		s.log, _ = os.Create(fmt.Sprintf("%s.%d", f, os.Getpid()))
	}
	s.Send(fmt.Sprintf("(set-option :timeout %d)\n(set-option :model.completion true)\n", s.TimeoutMs))
}

func (s *Solver) Close() {
	if s.cmd != nil {
		s.in.Close()
		s.cmd.Process.Kill()
		s.cmd.Wait()
		s.cmd = nil
	}
}

func (s *Solver) Restart() {
	s.Close()
	s.Killed = false
	s.start()
}

func (s *Solver) Send(text string) {
	if s.log != nil {
		s.log.WriteString(text)
	}
	if _, err := io.WriteString(s.in, text); err != nil {
		panic(engineError{"solver write: " + err.Error()})
	}
}

func (s *Solver) readLine() string {
	line, err := s.out.ReadString('\n')
	if err != nil {
		panic(engineError{"solver read: " + err.Error()})
	}
	return strings.TrimRight(line, "\r\n")
}

// readSexp reads one complete s-expression (possibly multi-line).
func (s *Solver) readSexp() string {
	var sb strings.Builder
	depth := 0
	started := false
	for {
		line := s.readLine()
		sb.WriteString(line)
		sb.WriteByte('\n')
		for _, c := range line {
			if c == '(' {
				depth++
				started = true
			} else if c == ')' {
				depth--
			}
		}
		if started && depth <= 0 {
			break
		}
		if !started && strings.TrimSpace(line) != "" {
			break
		}
	}
	return sb.String()
}

// Check runs (check-sat) and returns the verdict. A watchdog kills a solver that
// ignores its own timeout; the caller must then Restart and replay its script
// (Killed is set).
func (s *Solver) Check() SatResult {
	t0 := time.Now()
	s.Send("(check-sat)\n")
	s.Queries++
	done := make(chan SatResult, 1)
	go func() {
		defer func() {
			if r := recover(); r != nil {
				done <- Unknown
			}
		}()
		done <- s.readVerdict()
	}()
	limit := time.Duration(s.TimeoutMs)*time.Millisecond + 3*time.Second
	select {
	case r := <-done:
		s.Time += time.Since(t0)
		return r
	case <-time.After(limit):
		s.Killed = true
		s.cmd.Process.Kill()
		<-done
		s.Time += time.Since(t0)
		return Unknown
	}
}

func (s *Solver) readVerdict() SatResult {
	for {
		line := s.readLine()
		switch {
		case line == "sat":
			return Sat
		case line == "unsat":
			return Unsat
		case line == "unknown" || line == "timeout":
			return Unknown
		case strings.HasPrefix(line, "(error"):
			s.Errors++
			fmt.Fprintf(os.Stderr, "SOLVER ERROR: %s\n", line)
			// keep reading: the verdict line still follows, but it is not trusted
			for {
				l2 := s.readLine()
				if l2 == "sat" || l2 == "unsat" || l2 == "unknown" {
					break
				}
			}
			return Unknown
		case line == "":
		default:
			fmt.Fprintf(os.Stderr, "SOLVER: unexpected line %q\n", line)
		}
	}
}

// GetModel fetches values of the given variables after a sat verdict.
func (s *Solver) GetModel(vars []*Term, apps []*Term) Model {
	m := Model{}
	if len(vars) == 0 && len(apps) == 0 {
		return m
	}
	var sb strings.Builder
	sb.WriteString("(get-value (")
	for _, v := range vars {
		sb.WriteString(v.Name)
		sb.WriteByte(' ')
	}
	for _, a := range apps {
		fmt.Fprintf(&sb, "t%d ", a.id)
	}
	sb.WriteString("))\n")
	s.Send(sb.String())
	txt := s.readSexp()
	if strings.HasPrefix(txt, "(error") {
		s.Errors++
		panic(engineError{"get-value: " + txt})
	}
	parseModel(txt, m)
	return m
}

// parseModel parses ((name value) ...) where value is #x.., #b.., true/false,
// (_ bvN w), or an fp literal / special.
func parseModel(txt string, m Model) {
	toks := tokenize(txt)
	pos := 0
	var parseVal func() uint64
	expect := func(s string) {
		if toks[pos] != s {
			panic(engineError{fmt.Sprintf("parseModel: expected %q got %q in %s", s, toks[pos], txt)})
		}
		pos++
	}
	parseVal = func() uint64 {
		t := toks[pos]
		pos++
		switch {
		case t == "true":
			return 1
		case t == "false":
			return 0
		case strings.HasPrefix(t, "#x"):
			v, _ := strconv.ParseUint(t[2:], 16, 64)
			return v
		case strings.HasPrefix(t, "#b"):
			v, _ := strconv.ParseUint(t[2:], 2, 64)
			return v
		case t == "(":
			head := toks[pos]
			pos++
			switch head {
			case "_":
				kind := toks[pos]
				pos++
				switch {
				case strings.HasPrefix(kind, "bv"):
					v, _ := strconv.ParseUint(kind[2:], 10, 64)
					pos++ // width
					expect(")")
					return v
				case kind == "+zero":
					pos += 2
					expect(")")
					return 0
				case kind == "-zero":
					pos += 2
					expect(")")
					return 1 << 63
				case kind == "+oo":
					pos += 2
					expect(")")
					return 0x7ff0000000000000
				case kind == "-oo":
					pos += 2
					expect(")")
					return 0xfff0000000000000
				case kind == "NaN":
					pos += 2
					expect(")")
					return 0x7ff8000000000001
				}
				panic(engineError{"parseModel: unknown (_ " + kind})
			case "fp":
				sgn := parseVal()
				exp := parseVal()
				man := parseVal()
				expect(")")
				return sgn<<63 | exp<<52 | man
			}
			panic(engineError{"parseModel: unknown head " + head})
		}
		panic(engineError{"parseModel: bad token " + t})
	}
	expect("(")
	for toks[pos] == "(" {
		pos++
		name := toks[pos]
		pos++
		m[name] = parseVal()
		expect(")")
	}
}

func tokenize(s string) []string {
	var toks []string
	i := 0
	for i < len(s) {
		c := s[i]
		switch {
		case c == '(' || c == ')':
			toks = append(toks, string(c))
			i++
		case c == ' ' || c == '\n' || c == '\t' || c == '\r':
			i++
		default:
			j := i
			for j < len(s) && !strings.ContainsRune("() \n\t\r", rune(s[j])) {
				j++
			}
			toks = append(toks, s[i:j])
			i = j
		}
	}
	toks = append(toks, "<eof>")
	return toks
}

// OneShot runs a complete script through an alternative solver binary and
// returns the verdict and (for sat) the model text of a trailing get-value.
func OneShot(bin []string, script string, timeout time.Duration) (SatResult, string) {
	cmd := exec.Command(bin[0], bin[1:]...)
	cmd.Stdin = strings.NewReader(script)
	done := make(chan struct{})
	var out []byte
	go func() {
		out, _ = cmd.Output()
		close(done)
	}()
	select {
	case <-done:
	case <-time.After(timeout):
		if cmd.Process != nil {
			cmd.Process.Kill()
		}
		<-done
		return Unknown, ""
	}
	txt := string(out)
	if strings.Contains(txt, "(error") {
		// "model is not available" after unsat is expected when get-value follows
		first := strings.SplitN(strings.TrimSpace(txt), "\n", 2)[0]
		if first == "unsat" {
			return Unsat, ""
		}
		return Unknown, txt
	}
	lines := strings.SplitN(strings.TrimSpace(txt), "\n", 2)
	switch lines[0] {
	case "sat":
		if len(lines) > 1 {
			return Sat, lines[1]
		}
		return Sat, ""
	case "unsat":
		return Unsat, ""
	}
	return Unknown, txt
}
