package interp

// Engine API: loading, package initialisation, path execution, harness
// intrinsics, global write barrier.

import (
	"fmt"
	"go/token"
	"go/types"
	"os"
	"runtime"
	"sort"
	"strings"
	"unsafe"

	"golang.org/x/tools/go/ssa"
)

var InitWhitelist = map[string]bool{}

// Params are the per-check harness parameters (bounds).
var Params = map[string]int{}

type budgetHit struct{ what string }

type absentKey struct{}

type Engine struct {
	i    *interpreter
	Prog *ssa.Program
}

func NewEngine(prog *ssa.Program) *Engine {
	i := &interpreter{
		prog:       prog,
		globals:    make(map[*ssa.Global]*value),
		sizes:      &types.StdSizes{WordSize: 8, MaxAlign: 8},
		goroutines: 1,
	}
	if rt := prog.ImportedPackage("runtime"); rt != nil {
		i.runtimeErrorString = rt.Type("errorString").Object().Type()
	}
	initReflect(i)
	for _, pkg := range prog.AllPackages() {
		for _, m := range pkg.Members {
			if v, ok := m.(*ssa.Global); ok {
				cell := zero(mustDeref(v.Type()))
				i.globals[v] = &cell
			}
		}
	}
	if ep := prog.ImportedPackage("errors"); ep != nil {
		errStringPtrType = types.NewPointer(ep.Type("errorString").Object().Type())
	}
	return &Engine{i: i, Prog: prog}
}

var errStringPtrType types.Type

// Init runs the (whitelisted) package initialisers reachable from pkg, then
// freezes the library globals for the write barrier.
func (e *Engine) Init(pkgs []*ssa.Package, libPrefix string) {
	saved := X
	X = nil
	for _, p := range pkgs {
		call(e.i, nil, token.NoPos, p.Func("init"), nil)
	}
	X = saved
	e.freeze(libPrefix)
}

// ---- global write barrier ----

var frozenCells = map[*value]string{}
var frozenMaps = map[uintptr]string{}
var undoLog []undoRec
var barrierOn bool

type undoRec struct {
	addr *value
	old  value
}

func (e *Engine) freeze(libPrefix string) {
	seen := map[*value]bool{}
	var walk func(v value, name string, depth int)
	var walkCell func(c *value, name string, depth int)
	walkCell = func(c *value, name string, depth int) {
		if c == nil || seen[c] {
			return
		}
		seen[c] = true
		frozenCells[c] = name
		walk(*c, name, depth+1)
	}
	walk = func(v value, name string, depth int) {
		if depth > 12 {
			return
		}
		switch v := v.(type) {
		case *value:
			walkCell(v, name, depth)
		case []value:
			full := v[:cap(v)]
			for i := range full {
				walkCell(&full[i], name, depth)
			}
		case array:
			for i := range v {
				walkCell(&v[i], name, depth)
			}
		case structure:
			for i := range v {
				walkCell(&v[i], name, depth)
			}
		case iface:
			walk(v.v, name, depth+1)
		case map[value]value:
			if v != nil {
				frozenMaps[mapID(v)] = name
				for _, x := range v {
					walk(x, name, depth+1)
				}
			}
		case *hashmap:
			if v != nil {
				frozenMaps[uintptr(unsafe.Pointer(v))] = name
			}
		}
	}
	for g, cell := range e.i.globals {
		if g.Pkg == nil || !strings.HasPrefix(g.Pkg.Pkg.Path(), libPrefix) {
			continue
		}
		walkCell(cell, g.Pkg.Pkg.Name()+"."+g.Name(), 0)
	}
	barrierOn = true
}

func mapID(m map[value]value) uintptr {
	return *(*uintptr)(unsafe.Pointer(&m))
}

func inHarness() bool {
	if curInstr == nil || curInstr.Parent() == nil {
		return false
	}
	fn := curInstr.Parent()
	for fn.Parent() != nil {
		fn = fn.Parent()
	}
	return isHarnessFn(fn)
}

var harnessFnCache = map[*ssa.Function]bool{}

func isHarnessFn(fn *ssa.Function) bool {
	if b, ok := harnessFnCache[fn]; ok {
		return b
	}
	b := false
	if fn.Pos().IsValid() {
		f := fn.Prog.Fset.Position(fn.Pos()).Filename
		b = strings.Contains(f, "zz_verif")
	}
	harnessFnCache[fn] = b
	return b
}

func noteWrite(addr *value) {
	if !barrierOn {
		return
	}
	if name, ok := frozenCells[addr]; ok {
		undoLog = append(undoLog, undoRec{addr, *addr})
		if X != nil && !inHarness() {
			X.GlobalWrites = append(X.GlobalWrites, name+" written in "+curInstr.Parent().String())
		}
	}
}

func noteMapWrite(m value) {
	if !barrierOn {
		return
	}
	var id uintptr
	switch m := m.(type) {
	case map[value]value:
		id = mapID(m)
	case *hashmap:
		id = uintptr(unsafe.Pointer(m))
	}
	if name, ok := frozenMaps[id]; ok {
		if X != nil && !inHarness() {
			X.GlobalWrites = append(X.GlobalWrites, "map "+name+" updated in "+curInstr.Parent().String())
		} else if X != nil {
			panic(engineError{"harness writes a library map (not undoable): " + name})
		}
	}
}

func undoGlobals() {
	for i := len(undoLog) - 1; i >= 0; i-- {
		*undoLog[i].addr = undoLog[i].old
	}
	undoLog = undoLog[:0]
	for _, c := range poolFrozen {
		delete(frozenCells, c)
	}
	poolFrozen = poolFrozen[:0]
	for k := range poolItems {
		delete(poolItems, k)
	}
}

// sync.Pool model state (per path)
var poolItems = map[*value][]value{}
var poolFrozen []*value

// freezeMore marks the memory reachable from v as package-level state for the rest of the path.
func freezeMore(v value, name string) {
	var walk func(v value, depth int)
	cell := func(c *value, depth int) {
		if c == nil {
			return
		}
		if _, ok := frozenCells[c]; ok {
			return
		}
		frozenCells[c] = name
		poolFrozen = append(poolFrozen, c)
		walk(*c, depth+1)
	}
	walk = func(v value, depth int) {
		if depth > 12 {
			return
		}
		switch v := v.(type) {
		case *value:
			cell(v, depth)
		case []value:
			full := v[:cap(v)]
			for i := range full {
				cell(&full[i], depth)
			}
		case array:
			for i := range v {
				cell(&v[i], depth)
			}
		case structure:
			for i := range v {
				cell(&v[i], depth)
			}
		case iface:
			walk(v.v, depth+1)
		}
	}
	walk(v, 0)
}

func noteFunc(fn *ssa.Function) {
	if X != nil && !X.FuncsSeen[fn.String()] {
		X.FuncsSeen[fn.String()] = true
	}
}

func mapKeyConc(k value) value {
	switch k := k.(type) {
	case sym:
		return concOf(k.k, X.Concretise(k.t, siteSalt(61)))
	case symstr:
		b := make([]byte, len(k))
		for i, c := range k {
			if sc, ok := c.(sym); ok {
				b[i] = byte(X.Concretise(sc.t, siteSalt(62)))
			} else {
				b[i] = c.(uint8)
			}
		}
		return string(b)
	}
	return k
}

// ---- path execution ----

type PathResult struct {
	Status   string            `json:"status"` // ok | panic | dead | budget | engine-error | assert
	Msg      string            `json:"msg,omitempty"`
	Where    string            `json:"where,omitempty"`
	Model    Model             `json:"model,omitempty"`
	Inputs   map[string]string `json:"inputs,omitempty"`
	Trail    []Dec             `json:"trail,omitempty"`
	NewItems []WorkItem        `json:"new,omitempty"`
	Viol     []Violation       `json:"viol,omitempty"`
	Reach    []string          `json:"reach,omitempty"`
	Observe  []string          `json:"obs,omitempty"`
	MaxDepth int               `json:"maxdepth,omitempty"`
	Steps    int64             `json:"steps,omitempty"`
	GlobalWrites []string      `json:"gw,omitempty"`
	ForkSites map[string]int       `json:"forksites,omitempty"`
}

type obsRec struct {
	label string
	vals  []value
}

var pendingObs []obsRec

func (e *Engine) RunPath(fn *ssa.Function, item WorkItem) (res PathResult) {
	X.BeginPath(item)
	pendingObs = pendingObs[:0]
	curInstr = nil
	func() {
		defer func() {
			r := recover()
			where := ""
			if curInstr != nil && curInstr.Parent() != nil {
				where = curInstr.Parent().String()
				if p := curInstr.Pos(); p.IsValid() {
					pp := e.Prog.Fset.Position(p)
					where += fmt.Sprintf(" (%s:%d)", shortFile(pp.Filename), pp.Line)
				}
			}
			res.Where = where
			if r == nil {
				res.Status = "ok"
				return
			}
			switch p := r.(type) {
			case pathEnd:
				if p.reason == "assert-violated" {
					res.Status = "assert"
				} else {
					res.Status = "dead"
				}
				res.Msg = p.reason
			case budgetHit:
				res.Status = "budget"
				res.Msg = p.what
			case engineError:
				res.Status = "engine-error"
				res.Msg = p.msg
			case targetPanic:
				res.Status = "panic"
				res.Msg = "panic: " + toString(p.v)
			case *runtime.TypeAssertionError:
				res.Status = "engine-error"
				res.Msg = p.Error() + "\n" + stackSnippet()
			case runtime.Error:
				res.Status = "panic"
				res.Msg = p.Error()
				if _, ok := p.(rtErr); !ok {
					// a native runtime error inside the interpreter: classify by message
					m := p.Error()
					if !(strings.Contains(m, "out of range") || strings.Contains(m, "nil map") || strings.Contains(m, "nil pointer") || strings.Contains(m, "divide by zero") || strings.Contains(m, "out of bounds") || strings.Contains(m, "makeslice")) {
						res.Status = "engine-error"
						res.Msg += "\n" + stackSnippet()
					}
				}
			case string:
				if strings.HasPrefix(p, "interface conversion") || strings.HasPrefix(p, "method invoked on nil") || strings.HasPrefix(p, "call of nil function") || strings.HasPrefix(p, "value method") {
					res.Status = "panic"
					res.Msg = p
				} else {
					res.Status = "engine-error"
					res.Msg = p + "\n" + stackSnippet()
				}
			default:
				res.Status = "engine-error"
				res.Msg = fmt.Sprintf("%T %v", r, r)
			}
		}()
		call(e.i, nil, token.NoPos, fn, nil)
	}()
	undoGlobals()
	if res.Status == "panic" && !X.NoFork {
		X.reportViolation("panic", panicLabel(res.Msg, res.Where), res.Msg, res.Where, nil)
	}
	if res.Status == "panic" && X.NoFork {
		X.Viol = append(X.Viol, Violation{Kind: "panic", Label: panicLabel(res.Msg, res.Where), Msg: res.Msg, Where: res.Where, Model: X.Model()})
	}
	if len(X.GlobalWrites) > 0 && (res.Status == "ok" || res.Status == "panic") {
		res.GlobalWrites = X.GlobalWrites
	}
	res.Model = copyModel(X.Model())
	res.Inputs = X.witnessInputs(X.ev)
	res.Trail = append([]Dec(nil), X.trail...)
	res.NewItems = X.NewItems
	if SiteDebug {
		res.ForkSites = map[string]int{}
		for _, it := range X.NewItems {
			site := it.Prefix[len(it.Prefix)-1].Site
			nm := SiteNames[site]
			if nm == "" {
				nm = SiteNames[site/31] + fmt.Sprintf(" (salted %d)", site)
			}
			res.ForkSites[nm]++
		}
	}
	res.Viol = X.Viol
	for k := range X.Reach {
		res.Reach = append(res.Reach, k)
	}
	sort.Strings(res.Reach)
	for _, o := range pendingObs {
		res.Observe = append(res.Observe, renderObs(o))
	}
	res.MaxDepth = X.maxDepth
	res.Steps = X.steps
	X.St.Steps += X.steps
	X.EndPath()
	return
}

func panicLabel(msg, where string) string {
	m := msg
	if i := strings.Index(m, "["); i > 0 && strings.Contains(m, "out of range") {
		m = strings.TrimSpace(m[:i])
	}
	if len(m) > 60 {
		m = m[:60]
	}
	w := where
	if i := strings.Index(w, " ("); i > 0 {
		w = w[:i]
	}
	return w + ": " + m
}

func shortFile(f string) string {
	if i := strings.Index(f, "/repo/"); i >= 0 {
		return f[i+6:]
	}
	return f
}

func stackSnippet() string {
	buf := make([]byte, 1<<14)
	n := runtime.Stack(buf, false)
	lines := strings.Split(string(buf[:n]), "\n")
	var out []string
	for _, l := range lines {
		if strings.Contains(l, "gosx/interp") && !strings.Contains(l, "runFrame") && !strings.Contains(l, "callSSA") && !strings.Contains(l, "visitInstr") {
			out = append(out, strings.TrimSpace(l))
			if len(out) > 12 {
				break
			}
		}
	}
	return strings.Join(out, "\n")
}

func renderVal(v value) string {
	ev := X.ev
	switch v := v.(type) {
	case sym:
		bits := ev.Eval(v.t)
		return renderVal(concOf(v.k, bits))
	case iface:
		return renderVal(v.v)
	case []value:
		var sb strings.Builder
		sb.WriteString("x")
		for _, c := range v {
			if isScalar(c) {
				if k := dynKind(c); k == types.Uint8 {
					fmt.Fprintf(&sb, "%02x", byte(ev.Eval(toTerm(c, 8))))
					continue
				}
			}
			sb.WriteString("[" + renderVal(c) + "]")
		}
		return sb.String()
	case symstr:
		return renderVal([]value(v))
	case string:
		return fmt.Sprintf("x%x", v)
	case bool:
		if v {
			return "true"
		}
		return "false"
	case int, int8, int16, int32, int64:
		return fmt.Sprintf("%d", asInt64(v))
	case uint, uint8, uint16, uint32, uint64, uintptr:
		return fmt.Sprintf("%d", asUint64(v))
	case float64:
		return fmt.Sprintf("%x", v)
	case nil:
		return "nil"
	}
	return fmt.Sprintf("?%T", v)
}

func renderObs(o obsRec) string {
	parts := make([]string, 0, len(o.vals)+1)
	parts = append(parts, o.label)
	for _, v := range o.vals {
		parts = append(parts, renderVal(v))
	}
	return strings.Join(parts, " ")
}

// ---- intrinsics ----

type intrinsic func(fr *frame, args []value) value

var intrinsicCache = map[*ssa.Function]intrinsic{}

func intrinsicFor(fn *ssa.Function) intrinsic {
	if h, ok := intrinsicCache[fn]; ok {
		return h
	}
	var h intrinsic
	if fn.Pkg != nil && fn.Pos().IsValid() && strings.HasPrefix(fn.Name(), "v") {
		f := fn.Prog.Fset.Position(fn.Pos()).Filename
		if strings.HasSuffix(f, "zz_verif_rt.go") {
			h = intrinsics[fn.Name()]
			if h == nil && !strings.HasPrefix(fn.Name(), "vn") {
				panic(engineError{"unknown intrinsic " + fn.Name()})
			}
		}
	}
	intrinsicCache[fn] = h
	return h
}

func strArg(v value) string {
	switch v := v.(type) {
	case string:
		return v
	}
	panic(engineError{fmt.Sprintf("intrinsic: tag must be a concrete string, got %T", v)})
}

func boolTerm(v value) *Term {
	switch v := v.(type) {
	case bool:
		return BoolT(v)
	case sym:
		return v.t
	}
	panic(engineError{fmt.Sprintf("boolTerm: %T", v)})
}

func symScalar(tag string, k types.BasicKind) value {
	w, _, f := kindInfo(k)
	t := X.freshVar(tag, w, f)
	X.scalars[strings.TrimPrefix(t.Name, "v_")] = t
	if X.NoFork || X.inPrefix() || true {
		// value representation is symbolic in all modes; NoFork evaluates lazily
	}
	return sym{t, k}
}

var intrinsics map[string]intrinsic

func init() {
	intrinsics = map[string]intrinsic{
		"vByte": func(fr *frame, args []value) value { return symScalar(strArg(args[0]), types.Uint8) },
		"vBool": func(fr *frame, args []value) value { return symScalar(strArg(args[0]), types.Bool) },
		"vUint64": func(fr *frame, args []value) value { return symScalar(strArg(args[0]), types.Uint64) },
		"vInt64": func(fr *frame, args []value) value { return symScalar(strArg(args[0]), types.Int64) },
		"vUint32": func(fr *frame, args []value) value { return symScalar(strArg(args[0]), types.Uint32) },
		"vUint16": func(fr *frame, args []value) value { return symScalar(strArg(args[0]), types.Uint16) },
		"vInt32": func(fr *frame, args []value) value { return symScalar(strArg(args[0]), types.Int32) },
		"vFloat64": func(fr *frame, args []value) value { return symScalar(strArg(args[0]), types.Float64) },
		"vBytes": func(fr *frame, args []value) value {
			tag := strArg(args[0])
			n := int(asInt64(args[1]))
			base := X.freshVar(tag, 8, false).Name
			cells := make([]value, n)
			for i := range cells {
				cells[i] = sym{Var(fmt.Sprintf("%s_%d", base, i), 8, false), types.Uint8}
			}
			X.inputs[strings.TrimPrefix(base, "v_")] = append([]value(nil), cells...)
			return cells
		},
		"vInt": func(fr *frame, args []value) value {
			v := symScalar(strArg(args[0]), types.Int).(sym)
			lo, hi := toTerm(args[1], 64), toTerm(args[2], 64)
			X.Assume(BAnd(Cmp(OpSle, lo, v.t), Cmp(OpSle, v.t, hi)))
			return v
		},
		"vRange": func(fr *frame, args []value) value {
			v := symScalar(strArg(args[0]), types.Int).(sym)
			lo, hi := toTerm(args[1], 64), toTerm(args[2], 64)
			if lo.IsConst() && hi.IsConst() && !X.NoFork {
				// fresh variable constrained only by a concrete range: every value is feasible
				return int(X.EnumRange(v.t, int64(lo.K), int64(hi.K), siteSalt(71)))
			}
			X.Assume(BAnd(Cmp(OpSle, lo, v.t), Cmp(OpSle, v.t, hi)))
			return int(int64(X.Concretise(v.t, siteSalt(71))))
		},
		"vConcrete": func(fr *frame, args []value) value {
			if s, ok := args[0].(sym); ok {
				return concOf(s.k, X.Concretise(s.t, siteSalt(72)))
			}
			return args[0]
		},
		"vAssume": func(fr *frame, args []value) value {
			X.Assume(boolTerm(args[0]))
			return nil
		},
		"vAssert": func(fr *frame, args []value) value {
			where := ""
			if fr.caller != nil {
				where = fr.caller.fn.String()
			}
			X.Assert(boolTerm(args[0]), strArg(args[1]), where)
			return nil
		},
		"vReach": func(fr *frame, args []value) value {
			X.Reach[strArg(args[0])] = true
			return nil
		},
		"vObserve": func(fr *frame, args []value) value {
			vals := args[1].([]value)
			cp := make([]value, len(vals))
			for i, v := range vals {
				cp[i] = snapshotVal(v)
			}
			pendingObs = append(pendingObs, obsRec{strArg(args[0]), cp})
			return nil
		},
		"vOffsetIn": func(fr *frame, args []value) value {
			sub, whole := args[0].([]value), args[1].([]value)
			if cap(whole) == 0 {
				return -1
			}
			ps := uintptr(unsafe.Pointer(unsafe.SliceData(sub)))
			pw := uintptr(unsafe.Pointer(unsafe.SliceData(whole)))
			sz := unsafe.Sizeof(value(nil))
			if ps == 0 || ps < pw || (ps-pw)%sz != 0 {
				return -1
			}
			off := int((ps - pw) / sz)
			if off > cap(whole) {
				return -1
			}
			return off
		},
		"vDepth": func(fr *frame, args []value) value { return X.maxDepth - X.depth },
		"vDepthReset": func(fr *frame, args []value) value {
			X.maxDepth = X.depth
			return nil
		},
		"vSymbolic": func(fr *frame, args []value) value { return true },
		"vParam": func(fr *frame, args []value) value {
			if v, ok := Params[strArg(args[0])]; ok {
				return v
			}
			return int(asInt64(args[1]))
		},
	}
}

// snapshotVal copies slices so that later in-place mutation does not change an observation.
func snapshotVal(v value) value {
	switch v := v.(type) {
	case iface:
		return snapshotVal(v.v)
	case []value:
		cp := make([]value, len(v))
		for i, c := range v {
			cp[i] = snapshotVal(c)
		}
		return cp
	}
	return v
}

func Debugf(format string, args ...interface{}) {
	if os.Getenv("GOSX_DEBUG") != "" {
		fmt.Fprintf(os.Stderr, format, args...)
	}
}

// ---- vNodes: structural walk of a tree held in interpreter memory ----
// Returns every non-nil value stored in a field or slice element whose static type is one of
// the named interface types (and every non-nil pointer of the named pointer-to-struct types),
// in deterministic pre-order, without descending into fields whose type name is in skip.

func vNodesWalk(root iface, wantIfaces, wantPtrs, skip map[string]bool) []value {
	var out []value
	seen := map[*value]bool{}
	var walk func(v value, t types.Type, depth int)
	typeName := func(t types.Type) string {
		if p, ok := t.(*types.Pointer); ok {
			t = p.Elem()
		}
		if n, ok := t.(*types.Named); ok {
			return n.Obj().Name()
		}
		return ""
	}
	walk = func(v value, t types.Type, depth int) {
		if depth > 200 || v == nil {
			return
		}
		if skip[typeName(t)] {
			return
		}
		switch tt := t.Underlying().(type) {
		case *types.Interface:
			it, ok := v.(iface)
			if !ok || it.t == nil {
				return
			}
			if p, isPtr := it.v.(*value); isPtr && p == nil {
				return
			}
			if wantIfaces[typeName(t)] {
				out = append(out, it)
			}
			walk(it.v, it.t, depth+1)
		case *types.Pointer:
			p, ok := v.(*value)
			if !ok || p == nil {
				return
			}
			if wantPtrs[typeName(t)] {
				out = append(out, iface{t: t, v: p})
			}
			if seen[p] {
				return
			}
			seen[p] = true
			walk(*p, tt.Elem(), depth+1)
		case *types.Struct:
			st, ok := v.(structure)
			if !ok {
				return
			}
			tn := typeName(t)
			for i := 0; i < tt.NumFields(); i++ {
				if skip[tn+"."+tt.Field(i).Name()] {
					continue
				}
				walk(st[i], tt.Field(i).Type(), depth+1)
			}
		case *types.Slice:
			sl, ok := v.([]value)
			if !ok {
				return
			}
			for _, e := range sl {
				walk(e, tt.Elem(), depth+1)
			}
		case *types.Array:
			ar, ok := v.(array)
			if !ok {
				return
			}
			for _, e := range ar {
				walk(e, tt.Elem(), depth+1)
			}
		}
	}
	walk(root.v, root.t, 0)
	return out
}

func strSet(v value) map[string]bool {
	m := map[string]bool{}
	for _, e := range v.([]value) {
		m[strArg(e)] = true
	}
	return m
}

func init() {
	intrinsics["vNodes"] = func(fr *frame, args []value) value {
		root := args[0].(iface)
		res := vNodesWalk(root, strSet(args[1]), strSet(args[2]), strSet(args[3]))
		return res
	}
}
