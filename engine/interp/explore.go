package interp

// Path exploration by replaying decision vectors, guided by solver models.

import (
	"fmt"
	"os"
	"sort"
	"strings"
	"time"
)

type engineError struct{ msg string }

func (e engineError) Error() string { return "ENGINE: " + e.msg }

// pathEnd is panicked to terminate the current path early (dead assumption etc.).
type pathEnd struct{ reason string }

type Dec struct {
	V    int64  `json:"v"`
	Site uint32 `json:"s"`
}

type WorkItem struct {
	Prefix []Dec  `json:"p"`
	Model  Model  `json:"m,omitempty"`
	Depth  int    `json:"d,omitempty"`
	ID     string `json:"id,omitempty"`
}

type Violation struct {
	Kind    string `json:"kind"` // assert | panic | global-write | budget
	Label   string `json:"label"`
	Msg     string `json:"msg,omitempty"`
	Model   Model  `json:"model"`
	Known   string `json:"known,omitempty"` // matched known-finding id (if fully covered)
	Where   string `json:"where,omitempty"`
	Trail   []Dec  `json:"trail,omitempty"`
	Inputs  map[string]string `json:"inputs,omitempty"`
}

type KnownPred struct {
	ID    string
	Label string // substring that must occur in the violation label ("" = any)
	// predicate over the byte vector named Tag
	Tag   string
	Kind  string // input | input-prefix | input-contains | any
	Bytes []byte
	Arg   map[string]int64 // scalar var equalities
	Ge    map[string]int64 // scalar var >= (signed)
	Le    map[string]int64 // scalar var <= (signed)
	Eq    [][2]int         // pairs of byte positions of Tag that must be equal
	Ne    [][2]int         // pairs of byte positions of Tag that must differ
}

type Stats struct {
	Queries     int64
	QueryNs     int64
	Fallbacks   int64
	Unknowns    int64
	Decisions   int64
	ModelHits   int64 // branch sides decided by the current model without a query
	Steps       int64
	AssertsChk  int64
	AssertsInh  int64
	CapHits     int64
	Regions     int64
	Merges      int64
	FastImplied int64
	FastForks   int64
	Kills       int64
}

type Explorer struct {
	S       *Solver
	P       *Printer
	prefix  []Dec
	cursor  int
	trail   []Dec
	pc      []*Term
	ev      *Evaluator
	script  strings.Builder
	NewItems []WorkItem
	Viol    []Violation
	Reach   map[string]bool
	Observe []string
	St      Stats
	MaxSteps int64
	steps    int64
	Known   []KnownPred
	KnownHit map[string]bool
	ConcCap int
	inputs  map[string][]value // tag -> symbolic byte vector (for known-finding predicates and witnesses)
	scalars map[string]*Term
	varSeq  map[string]int
	depth, maxDepth int
	DepthLimit int
	GlobalWrites []string
	FuncsSeen map[string]bool
	NoFork bool // concrete replay mode: never query, follow the model
	SolverTimeoutMs int
	pathsOnSolver   int
	fast            *fastState
	FastOn, FastAudit bool
}

var X *Explorer

func NewExplorer(timeoutMs int) *Explorer {
	return &Explorer{FastOn: true, S: NewSolver(timeoutMs), ConcCap: 300, MaxSteps: 400000, DepthLimit: 2000,
		FuncsSeen: map[string]bool{}, KnownHit: map[string]bool{}, SolverTimeoutMs: timeoutMs}
}

func (x *Explorer) BeginPath(item WorkItem) {
	TS.Reset()
	x.P = NewPrinter()
	x.prefix = item.Prefix
	x.cursor = 0
	x.trail = x.trail[:0]
	x.pc = x.pc[:0]
	m := item.Model
	if m == nil {
		m = Model{}
	}
	x.ev = NewEvaluator(m)
	x.script.Reset()
	x.NewItems = nil
	x.Viol = nil
	x.Reach = map[string]bool{}
	x.Observe = nil
	x.steps = 0
	x.inputs = map[string][]value{}
	x.scalars = map[string]*Term{}
	x.varSeq = map[string]int{}
	x.depth, x.maxDepth = 0, 0
	x.GlobalWrites = nil
	x.fast = newFastState()
	x.fast.On = x.FastOn
	if !x.NoFork {
		x.S.Send("(push 1)\n")
	}
}

func (x *Explorer) EndPath() {
	if !x.NoFork {
		x.S.Send("(pop 1)\n")
		x.pathsOnSolver++
		if x.pathsOnSolver >= 2000 {
			// hygiene: a fresh solver process every 2000 paths
			x.S.Restart()
			x.pathsOnSolver = 0
		}
	}
}

func (x *Explorer) Model() Model { return x.ev.M }

func (x *Explorer) setModel(m Model) {
	// keep values of variables the solver did not mention
	for k, v := range x.ev.M {
		if _, ok := m[k]; !ok {
			m[k] = v
		}
	}
	x.ev = NewEvaluator(m)
	if x.P != nil {
		x.ev.Prime(x.P.UFApps)
	}
}

func (x *Explorer) flushDefs() {
	if s := x.P.Flush(); s != "" {
		x.script.WriteString(s)
		if !x.NoFork {
			x.S.Send(s)
		}
	}
}

func (x *Explorer) assertPC(t *Term) {
	if isTrue(t) {
		return
	}
	x.pc = append(x.pc, t)
	if x.NoFork {
		return
	}
	x.fast.onAssert(t)
	n := x.P.Ref(t)
	x.flushDefs()
	line := "(assert " + n + ")\n"
	x.script.WriteString(line)
	x.S.Send(line)
}

// query asks whether PC ∧ extra is satisfiable; on sat returns a model.
func (x *Explorer) query(extra ...*Term) (SatResult, Model) {
	if x.NoFork {
		panic(engineError{"query in no-fork mode"})
	}
	names := make([]string, len(extra))
	for i, t := range extra {
		names[i] = x.P.Ref(t)
	}
	x.flushDefs()
	var sb strings.Builder
	sb.WriteString("(push 1)\n")
	for _, n := range names {
		sb.WriteString("(assert " + n + ")\n")
	}
	t0 := time.Now()
	x.St.Queries++
	if Params["cvc5first"] != 0 {
		r, m := x.fallback(names)
		x.St.QueryNs += int64(time.Since(t0))
		return r, m
	}
	x.S.Send(sb.String())
	r := x.S.Check()
	var m Model
	if x.S.Killed {
		// the solver ignored its timeout and was killed: restart it and restore this path's context
		x.St.Kills++
		x.S.Restart()
		x.S.Send("(push 1)\n" + x.script.String())
		r = Unknown
	} else {
		if r == Sat {
			m = x.S.GetModel(x.P.Vars, x.P.UFApps)
		}
		x.S.Send("(pop 1)\n")
	}
	if r == Unknown {
		r, m = x.fallback(names)
	}
	x.St.QueryNs += int64(time.Since(t0))
	return r, m
}

func (x *Explorer) fallback(names []string) (SatResult, Model) {
	x.St.Fallbacks++
	var sb strings.Builder
	sb.WriteString(x.script.String())
	for _, n := range names {
		sb.WriteString("(assert " + n + ")\n")
	}
	sb.WriteString("(check-sat)\n")
	if len(x.P.Vars)+len(x.P.UFApps) > 0 {
		sb.WriteString("(get-value (")
		for _, v := range x.P.Vars {
			sb.WriteString(v.Name + " ")
		}
		for _, a := range x.P.UFApps {
			fmt.Fprintf(&sb, "t%d ", a.id)
		}
		sb.WriteString("))\n")
	}
	to := time.Duration(x.SolverTimeoutMs) * time.Millisecond * 3
	script := sb.String()
	if f := os.Getenv("GOSX_DUMP_UNKNOWN"); f != "" {
		os.WriteFile(fmt.Sprintf("%s.%d.%d.smt2", f, os.Getpid(), x.St.Fallbacks), []byte(script), 0644)
	}
	for _, alt := range [][]string{
		{"cvc5", "--produce-models", "--solve-bv-as-int=sum", "--lang=smt2"},
		{"z3", "-in"},
		{"cvc5", "--produce-models", "--lang=smt2"},
	} {
		s := script
		if alt[0] == "cvc5" {
			s = "(set-logic ALL)\n" + s
		}
		r, mt := OneShot(alt, s, to)
		if r == Unsat {
			return Unsat, nil
		}
		if r == Sat && mt != "" {
			m := Model{}
			ok := func() (ok bool) {
				defer func() {
					if recover() != nil {
						ok = false
					}
				}()
				parseModel(mt, m)
				return true
			}()
			if ok {
				return Sat, m
			}
		}
	}
	x.St.Unknowns++
	return Unknown, nil
}

func (x *Explorer) pushItem(v int64, site uint32, m Model) {
	p := make([]Dec, len(x.trail)+1)
	copy(p, x.trail)
	p[len(x.trail)] = Dec{v, site}
	x.NewItems = append(x.NewItems, WorkItem{Prefix: p, Model: m})
}

// Branch decides a symbolic condition. Returns the side taken on this path.
func (x *Explorer) Branch(c *Term, site uint32) bool {
	if c.IsConst() {
		return c.K != 0
	}
	x.St.Decisions++
	if x.NoFork {
		b := x.ev.Bool(c)
		x.trail = append(x.trail, Dec{int64(b2u(b)), site})
		return b
	}
	kind, verdict, fname, tset, fset := x.fast.decide(c)
	if kind == 1 {
		x.St.FastImplied++
		x.St.Decisions--
		if x.FastAudit && !x.inPrefix() {
			neg := c
			if verdict {
				neg = BNot(c)
			}
			if r, _ := x.query(neg); r != Unsat {
				panic(engineError{"fast-path audit: implied verdict contradicted by the solver"})
			}
		}
		return verdict
	}
	if x.cursor < len(x.prefix) {
		d := x.prefix[x.cursor]
		if d.Site != site {
			panic(engineError{fmt.Sprintf("replay divergence at decision %d: site %d vs recorded %d", x.cursor, site, d.Site)})
		}
		x.cursor++
		x.trail = append(x.trail, d)
		if d.V != 0 {
			x.assertPC(c)
			return true
		}
		x.assertPC(BNot(c))
		return false
	}
	mv := x.ev.Bool(c)
	x.St.ModelHits++
	var other *Term
	if mv {
		other = BNot(c)
	} else {
		other = c
	}
	if kind == 2 {
		// both sides feasible, variable independent of all others: flip it in the current model
		x.St.FastForks++
		oset := tset
		if mv {
			oset = fset
		}
		m2 := copyModel(x.ev.M)
		m2[fname] = uint64(oset.first())
		if x.FastAudit {
			if r, _ := x.query(other); r != Sat {
				panic(engineError{"fast-path audit: fork verdict contradicted by the solver"})
			}
		}
		x.pushItem(int64(b2u(!mv)), site, m2)
	} else {
		r, m := x.query(other)
		if r == Sat {
			x.pushItem(int64(b2u(!mv)), site, m)
		}
	}
	x.cursor++ // keep cursor == len(trail) beyond the prefix
	x.trail = append(x.trail, Dec{int64(b2u(mv)), site})
	if mv {
		x.assertPC(c)
	} else {
		x.assertPC(BNot(c))
	}
	return mv
}

// Concretise forks over all feasible values of t (raw bits), returning this path's value.
func (x *Explorer) Concretise(t *Term, site uint32) uint64 {
	if t.IsConst() {
		return t.K
	}
	x.St.Decisions++
	eq := func(v uint64) *Term {
		if t.W == 0 {
			if v != 0 {
				return t
			}
			return BNot(t)
		}
		return Cmp(OpEq, t, BV(v, t.W))
	}
	if x.NoFork {
		v := x.ev.Eval(t)
		x.trail = append(x.trail, Dec{int64(v), site})
		return v
	}
	var fvals []uint64
	var fsets []bitset256
	fname := ""
	if x.fast.On {
		if sp := x.fast.support(t); sp.n == 1 {
			vi := x.fast.info(sp.name)
			fvals, fsets = x.fast.valueSets(t, sp.name, vi.dom)
			if len(fvals) == 1 {
				x.St.FastImplied++
				x.St.Decisions--
				return fvals[0]
			}
			if vi.mixed || len(fvals) == 0 {
				fvals = nil
			} else {
				fname = sp.name
			}
		}
	}
	if x.cursor < len(x.prefix) {
		d := x.prefix[x.cursor]
		if d.Site != site {
			panic(engineError{fmt.Sprintf("replay divergence (concretise) at decision %d: site %d vs %d", x.cursor, site, d.Site)})
		}
		x.cursor++
		x.trail = append(x.trail, d)
		x.assertPC(eq(uint64(d.V)))
		return uint64(d.V)
	}
	v0 := x.ev.Eval(t)
	if fvals != nil {
		x.St.FastForks++
		for i, v := range fvals {
			if v == v0 {
				continue
			}
			m2 := copyModel(x.ev.M)
			m2[fname] = uint64(fsets[i].first())
			x.pushItem(int64(v), site, m2)
		}
		x.cursor++
		x.trail = append(x.trail, Dec{int64(v0), site})
		x.assertPC(eq(v0))
		return v0
	}
	excl := []*Term{BNot(eq(v0))}
	n := 1
	for {
		r, m := x.query(excl...)
		if r != Sat {
			break
		}
		e2 := NewEvaluator(m)
		e2.Prime(x.P.UFApps)
		v := e2.Eval(t)
		x.pushItem(int64(v), site, m)
		excl = append(excl, BNot(eq(v)))
		n++
		if n > x.ConcCap {
			x.St.CapHits++
			break
		}
	}
	x.cursor++
	x.trail = append(x.trail, Dec{int64(v0), site})
	x.assertPC(eq(v0))
	return v0
}

// EnumRange forks a fresh variable over the concrete range [lo,hi] without solver
// queries (the variable occurs in no other constraint yet, so every value is feasible).
func (x *Explorer) EnumRange(t *Term, lo, hi int64, site uint32) int64 {
	if lo > hi {
		panic(pathEnd{"assume-false"})
	}
	if lo == hi {
		x.assertPC(Cmp(OpEq, t, BV(uint64(lo), t.W)))
		x.ev.M[t.Name] = uint64(lo)
		x.ev = NewEvaluator(x.ev.M)
		return lo
	}
	x.St.Decisions++
	if x.cursor < len(x.prefix) {
		d := x.prefix[x.cursor]
		if d.Site != site {
			panic(engineError{fmt.Sprintf("replay divergence (range) at decision %d: site %d vs %d", x.cursor, site, d.Site)})
		}
		x.cursor++
		x.trail = append(x.trail, d)
		x.assertPC(Cmp(OpEq, t, BV(uint64(d.V), t.W)))
		return d.V
	}
	for v := hi; v > lo; v-- {
		m2 := copyModel(x.ev.M)
		m2[t.Name] = uint64(v)
		x.pushItem(v, site, m2)
	}
	x.St.FastForks++
	x.cursor++
	x.trail = append(x.trail, Dec{lo, site})
	x.assertPC(Cmp(OpEq, t, BV(uint64(lo), t.W)))
	x.ev.M[t.Name] = uint64(lo)
	x.ev = NewEvaluator(x.ev.M)
	return lo
}

// KWay chooses among mutually exclusive, jointly exhaustive conditions.
func (x *Explorer) KWay(conds []*Term, site uint32) int {
	live := 0
	last := -1
	dead := make([]bool, len(conds))
	for i, c := range conds {
		if isFalse(c) {
			dead[i] = true
			continue
		}
		if !x.NoFork {
			if dec, sat, _ := x.fastFeasible(c); dec && !sat {
				dead[i] = true
				x.St.FastImplied++
				continue
			}
		}
		live++
		last = i
	}
	if live == 1 {
		return last
	}
	x.St.Decisions++
	if x.NoFork {
		for i, c := range conds {
			if x.ev.Bool(c) {
				x.trail = append(x.trail, Dec{int64(i), site})
				return i
			}
		}
		panic(engineError{"KWay: model satisfies no alternative"})
	}
	if x.cursor < len(x.prefix) {
		d := x.prefix[x.cursor]
		if d.Site != site {
			panic(engineError{fmt.Sprintf("replay divergence (kway) at decision %d: site %d vs %d", x.cursor, site, d.Site)})
		}
		x.cursor++
		x.trail = append(x.trail, d)
		x.assertPC(conds[d.V])
		return int(d.V)
	}
	chosen := -1
	for i, c := range conds {
		if !isFalse(c) && x.ev.Bool(c) {
			chosen = i
			break
		}
	}
	if chosen < 0 {
		panic(engineError{"KWay: model satisfies no alternative"})
	}
	for i, c := range conds {
		if i == chosen || dead[i] {
			continue
		}
		if dec, sat, m2 := x.fastFeasible(c); dec {
			if sat {
				x.St.FastForks++
				if x.FastAudit {
					if r, _ := x.query(c); r != Sat {
						panic(engineError{"fast-path audit: k-way verdict contradicted by the solver"})
					}
				}
				x.pushItem(int64(i), site, m2)
			}
			continue
		}
		r, m := x.query(c)
		if r == Sat {
			x.pushItem(int64(i), site, m)
		}
	}
	x.cursor++
	x.trail = append(x.trail, Dec{int64(chosen), site})
	x.assertPC(conds[chosen])
	return chosen
}

// fastFeasible decides PC ∧ c by the unary-domain fast path when possible:
// returns (decided, sat, model).
func (x *Explorer) fastFeasible(c *Term) (bool, bool, Model) {
	if !x.fast.On {
		return false, false, nil
	}
	sp := x.fast.support(c)
	if sp.n != 1 {
		return false, false, nil
	}
	vi := x.fast.info(sp.name)
	T := vi.dom.and(x.fast.truthSet(c, sp.name))
	if T.empty() {
		return true, false, nil
	}
	if vi.mixed {
		return false, false, nil
	}
	m2 := copyModel(x.ev.M)
	m2[sp.name] = uint64(T.first())
	return true, true, m2
}

func (x *Explorer) inPrefix() bool { return !x.NoFork && x.cursor < len(x.prefix) }

// Assume constrains the path; ends it if infeasible.
func (x *Explorer) Assume(c *Term) {
	if isTrue(c) {
		return
	}
	if isFalse(c) {
		panic(pathEnd{"assume-false"})
	}
	if x.NoFork {
		if !x.ev.Bool(c) {
			panic(pathEnd{"assume-false"})
		}
		return
	}
	if x.inPrefix() {
		x.assertPC(c)
		return
	}
	if !x.ev.Bool(c) {
		r, m := x.query(c)
		if r != Sat {
			panic(pathEnd{"assume-infeasible"})
		}
		x.setModel(m)
	}
	x.assertPC(c)
}

// Assert checks that c holds for every input on this path.
func (x *Explorer) Assert(c *Term, label string, where string) {
	if isTrue(c) {
		return
	}
	if x.NoFork {
		if !x.ev.Bool(c) {
			x.Viol = append(x.Viol, Violation{Kind: "assert", Label: label, Model: x.ev.M, Where: where})
			panic(pathEnd{"assert-violated"})
		}
		return
	}
	if x.inPrefix() {
		x.St.AssertsInh++
		x.assertPC(c)
		return
	}
	x.St.AssertsChk++
	if isFalse(c) {
		x.reportViolation("assert", label, "", where, nil)
		panic(pathEnd{"assert-violated"})
	}
	if !x.ev.Bool(c) {
		// current model is a witness
		x.reportViolation("assert", label, "", where, BNot(c))
		r, m := x.query(c)
		if r != Sat {
			panic(pathEnd{"assert-violated"})
		}
		x.setModel(m)
	} else {
		r, m := x.query(BNot(c))
		if r == Sat {
			saved := x.ev
			x.ev = NewEvaluator(m)
			x.ev.Prime(x.P.UFApps)
			x.reportViolation("assert", label, "", where, BNot(c))
			x.ev = saved
		}
	}
	x.assertPC(c)
}

// reportViolation records a violation whose witness is the current model;
// vcond (may be nil) is the violating condition in addition to the PC.
// Known-finding predicates are applied here: the violation is only reported as
// new if PC ∧ vcond ∧ ¬K1 ∧ … ∧ ¬Kn is satisfiable.
func (x *Explorer) reportViolation(kind, label, msg, where string, vcond *Term) {
	v := Violation{Kind: kind, Label: label, Msg: msg, Where: where, Model: copyModel(x.ev.M), Inputs: x.witnessInputs(x.ev)}
	v.Trail = append([]Dec(nil), x.trail...)
	var ks []*Term
	var ids []string
	for _, k := range x.Known {
		if k.Label != "" && !strings.Contains(kind+":"+label+" "+msg, k.Label) {
			continue
		}
		t := x.knownTerm(k)
		if t == nil {
			continue
		}
		ks = append(ks, t)
		ids = append(ids, k.ID)
	}
	if len(ks) > 0 {
		matched := ""
		for i, k := range ks {
			if x.ev.Bool(k) {
				matched = ids[i]
				x.KnownHit[ids[i]] = true
			}
		}
		// is there an unlisted violation on this path?
		q := []*Term{}
		if vcond != nil {
			q = append(q, vcond)
		}
		for _, k := range ks {
			q = append(q, BNot(k))
		}
		r, m := x.query(q...)
		switch r {
		case Sat:
			ev := NewEvaluator(m)
			ev.Prime(x.P.UFApps)
			v.Model = copyModel(m)
			v.Inputs = x.witnessInputs(ev)
			v.Known = ""
		case Unsat:
			if matched == "" {
				// some known predicate covers everything although the witness matched none: find one
				for i, k := range ks {
					var qq []*Term
					if vcond != nil {
						qq = append(qq, vcond)
					}
					qq = append(qq, k)
					if r2, _ := x.query(qq...); r2 == Sat {
						matched = ids[i]
						x.KnownHit[ids[i]] = true
						break
					}
				}
			}
			v.Known = matched
		default:
			v.Known = ""
		}
	}
	x.Viol = append(x.Viol, v)
}

func copyModel(m Model) Model {
	c := make(Model, len(m))
	for k, v := range m {
		c[k] = v
	}
	return c
}

func (x *Explorer) knownTerm(k KnownPred) *Term {
	if k.Kind == "any" {
		return BoolT(true)
	}
	res := BoolT(true)
	for name, val := range k.Arg {
		t, ok := x.scalars[name]
		if !ok {
			return nil
		}
		if t.W == 0 {
			if val != 0 {
				res = BAnd(res, t)
			} else {
				res = BAnd(res, BNot(t))
			}
		} else {
			res = BAnd(res, Cmp(OpEq, t, BV(uint64(val), t.W)))
		}
	}
	for name, val := range k.Ge {
		t, ok := x.scalars[name]
		if !ok || t.W == 0 || t.F {
			return nil
		}
		res = BAnd(res, Cmp(OpSle, BV(uint64(val), t.W), t))
	}
	for name, val := range k.Le {
		t, ok := x.scalars[name]
		if !ok || t.W == 0 || t.F {
			return nil
		}
		res = BAnd(res, Cmp(OpSle, t, BV(uint64(val), t.W)))
	}
	if len(k.Eq)+len(k.Ne) > 0 {
		in, ok := x.inputs[k.Tag]
		if !ok {
			return nil
		}
		for _, p := range k.Eq {
			if p[0] >= len(in) || p[1] >= len(in) {
				return BoolT(false)
			}
			res = BAnd(res, Cmp(OpEq, toTerm(in[p[0]], 8), toTerm(in[p[1]], 8)))
		}
		for _, p := range k.Ne {
			if p[0] >= len(in) || p[1] >= len(in) {
				return BoolT(false)
			}
			res = BAnd(res, BNot(Cmp(OpEq, toTerm(in[p[0]], 8), toTerm(in[p[1]], 8))))
		}
	}
	if k.Kind == "" || k.Kind == "args" {
		return res
	}
	in, ok := x.inputs[k.Tag]
	if !ok {
		return nil
	}
	matchAt := func(off int) *Term {
		r := BoolT(true)
		for j, b := range k.Bytes {
			r = BAnd(r, Cmp(OpEq, toTerm(in[off+j], 8), BV(uint64(b), 8)))
		}
		return r
	}
	switch k.Kind {
	case "input":
		if len(in) != len(k.Bytes) {
			return BoolT(false)
		}
		return BAnd(res, matchAt(0))
	case "input-prefix":
		if len(in) < len(k.Bytes) {
			return BoolT(false)
		}
		return BAnd(res, matchAt(0))
	case "input-suffix":
		if len(in) < len(k.Bytes) {
			return BoolT(false)
		}
		return BAnd(res, matchAt(len(in)-len(k.Bytes)))
	case "input-contains":
		r := BoolT(false)
		for off := 0; off+len(k.Bytes) <= len(in); off++ {
			r = BOr(r, matchAt(off))
		}
		return BAnd(res, r)
	}
	return nil
}

func (x *Explorer) witnessInputs(ev *Evaluator) map[string]string {
	out := map[string]string{}
	tags := make([]string, 0, len(x.inputs))
	for t := range x.inputs {
		tags = append(tags, t)
	}
	sort.Strings(tags)
	for _, tag := range tags {
		cells := x.inputs[tag]
		b := make([]byte, len(cells))
		for i, c := range cells {
			b[i] = byte(ev.Eval(toTerm(c, 8)))
		}
		out[tag] = fmt.Sprintf("%x", b)
	}
	for name, t := range x.scalars {
		v := ev.Eval(t)
		if t.W > 0 && t.W < 64 || t.W == 64 && !t.F {
			out[name] = fmt.Sprintf("%d", sext64(v, t.W))
		} else {
			out[name] = fmt.Sprintf("%d", v)
		}
	}
	return out
}

// DefineBits returns a fresh 64-bit variable constrained to be the IEEE bit pattern of the
// (non-NaN) float term f: math.Float64bits on a symbolic float.
func (x *Explorer) DefineBits(f *Term) *Term {
	if f.IsConst() {
		return BV(f.K, 64)
	}
	v := x.freshVar("f64bits", 64, false)
	x.ev.M[v.Name] = x.ev.Eval(f)
	x.ev = NewEvaluator(x.ev.M)
	if x.P != nil {
		x.ev.Prime(x.P.UFApps)
	}
	x.assertPC(FSame(FFromBits(v), f))
	return v
}

func (x *Explorer) freshVar(tag string, w uint8, f bool) *Term {
	n := x.varSeq[tag]
	x.varSeq[tag] = n + 1
	name := sanitize(tag)
	if n > 0 {
		name = fmt.Sprintf("%s.%d", name, n)
	}
	return Var("v_"+name, w, f)
}

func sanitize(s string) string {
	var sb strings.Builder
	for _, c := range s {
		if c >= 'a' && c <= 'z' || c >= 'A' && c <= 'Z' || c >= '0' && c <= '9' || c == '_' {
			sb.WriteRune(c)
		} else {
			sb.WriteByte('_')
		}
	}
	return sb.String()
}
