#!/bin/bash
# usage: seedtest.sh <Cxx> <k> [tier] [extra check ids...]
# Confirms a seeded change (from /tmp/wt-<id>/SEED/<k>) in a scratch worktree, stores it under
# /verif/seeded/<id>-<k>/, then applies it to /repo, runs the check(s), and reverts /repo.
set -u
id=$1; k=$2; tier=${3:-quick}; shift; shift; shift || true
src=/tmp/wt-$id/SEED/$k
dst=/verif/seeded/$id-$k
export GOFLAGS=-mod=mod GOPROXY=off GOSUMDB=off GOTOOLCHAIN=local
if [ ! -f $dst/patch.diff ]; then
  mkdir -p $dst && cp $src/* $dst/ 2>/dev/null
fi
wt=/tmp/confirm-$id-$k
rm -rf $wt; git -C /repo worktree prune; git -C /repo worktree add -q --detach $wt HEAD || exit 9
demo=$(ls $dst/*_test.go | head -1)
pkgdir=$(python3 - <<PY
import json,re
m=json.load(open("$dst/meta.json"))
cmd=m.get("demo_cmd","")
t=[x for x in cmd.strip().split() if x.startswith("./") or x=="."]
print(t[-1].rstrip("/") if t else ".")
PY
)
cp $demo $wt/$pkgdir/
run=$(grep -o "func Test[A-Za-z0-9_]*" $demo | head -1 | sed 's/func //')
echo "== demo on clean tree (must pass)"
(cd $wt && go test -vet=off -count=1 -run "^$run\$" $pkgdir 2>&1 | tail -3); clean=$?
(cd $wt && go test -vet=off -count=1 -run "^$run\$" $pkgdir >/dev/null 2>&1); clean=$?
git -C $wt apply $dst/patch.diff || { echo "PATCH DOES NOT APPLY"; exit 9; }
echo "== build + existing tests with the change (must pass)"
rm $wt/$pkgdir/$(basename $demo)
(cd $wt && go build ./... && go test -vet=off -count=1 ./... 2>&1 | grep -v "^ok\|no test files" | head -5); 
(cd $wt && go build ./... && go test -vet=off -count=1 ./... >/dev/null 2>&1); suite=$?
cp $demo $wt/$pkgdir/
echo "== demo with the change (must fail)"
(cd $wt && go test -vet=off -count=1 -run "^$run\$" $pkgdir 2>&1 | tail -4)
(cd $wt && go test -vet=off -count=1 -run "^$run\$" $pkgdir >/dev/null 2>&1); seeded=$?
git -C /repo worktree remove --force $wt
echo "confirm: clean_demo_exit=$clean suite_with_change_exit=$suite demo_with_change_exit=$seeded"
if [ $clean -ne 0 ] || [ $suite -ne 0 ] || [ $seeded -eq 0 ]; then echo "SEED NOT CONFIRMED"; echo "not confirmed" > $dst/status.txt; exit 8; fi
# run our checks against a scratch copy with the change applied (never /repo itself)
sr=/tmp/seedrepo-$id-$k
rm -rf $sr; git -C /repo worktree prune; git -C /repo worktree add -q --detach $sr HEAD || exit 9
git -C $sr apply $dst/patch.diff || exit 9
results=""
for cid in $id "$@"; do
  VERIF_REPO=$sr VERIF_OUT=/tmp/seedout-$id-$k VERIF_TIER=$tier timeout 3000 /verif/bin/vp check $cid --tier $tier > $dst/check-$cid-$tier.log 2>&1; ec=$?
  results="$results $cid:$tier:exit=$ec"
  grep "^VIOLATION\|^KNOWN" $dst/check-$cid-$tier.log | head -3
  grep "violation:\|INCONCLUSIVE\|ENGINE-MISMATCH" $dst/check-$cid-$tier.log | head -4
done
git -C /repo worktree remove --force $sr; rm -rf /tmp/seedout-$id-$k
echo "RESULT $id-$k:$results"
echo "$results" >> $dst/status.txt
