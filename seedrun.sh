#!/bin/bash
# usage: seedrun.sh <seedsrc dir with patch.diff> <harness> [params]   — runs one harness against a scratch copy with the patch
src=$1; h=$2; p=${3:-}
sr=/tmp/seedrun-$$
git -C /repo worktree prune; git -C /repo worktree add -q --detach $sr HEAD || exit 9
git -C $sr apply $src/patch.diff || { git -C /repo worktree remove --force $sr; exit 9; }
VERIF_REPO=$sr timeout 1200 /verif/bin/vp run -w 16 -p "$p" $h 2>&1 | grep -v "gosx\|reach\|also" | tail -4
git -C /repo worktree remove --force $sr
